#!/bin/bash
# Offline setup: make sure hypothesis is importable from the repository's venv.
HERE="$(cd "$(dirname "${BASH_SOURCE[0]}")" && pwd)"
PY="${MVF_PYTHON:-/venv/bin/python}"
if ! "$PY" -c "import hypothesis" 2>/dev/null; then
  /venv/bin/pip install --no-index --find-links /opt/veriftools/wheels hypothesis || exit 1
fi
"$PY" -c "import hypothesis, mosaik, mosaik_api_v3, networkx; print('setup ok: hypothesis', hypothesis.__version__)" || exit 1
mkdir -p "$HERE/evidence"
exit 0

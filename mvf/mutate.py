"""Sensitivity self-test: apply small breaking edits to a scratch copy of the repository and confirm that
the quick check of the targeted property reports a VIOLATION.  Not a registered check; run by hand:

    python -m mvf.mutate [name-substring ...]

Scratch copies live under $TMPDIR and are removed after each mutant.
"""
from __future__ import annotations

import os
import shutil
import subprocess
import sys
import tempfile

VERIF = os.path.dirname(os.path.dirname(os.path.abspath(__file__)))
REPO = os.environ.get("MVF_REPO", "/repo")

# (name, file, old, new, [properties expected to catch it])
MUTANTS = [
    ("wait_has_reached", "mosaik/scheduler.py",
     "futures.append(pre_sim.progress.has_passed(next_step, shift=delay))",
     "futures.append(pre_sim.progress.has_reached(next_step, shift=delay))", ["C01", "C04"]),
    ("input_delay_max", "mosaik/scenario.py",
     "dest_sim.input_delays[src_sim] = min(dest_sim.input_delays.get(src_sim, delay), delay)",
     "dest_sim.input_delays[src_sim] = max(dest_sim.input_delays.get(src_sim, delay), delay)", ["C01"]),
    ("no_dedup_schedule_step", "mosaik/simmanager.py",
     "        if tiered_time in self.next_steps:\n            return tiered_time\n", "", ["C02"]),
    ("until_le", "mosaik/scheduler.py",
     "        if next_step_time < world.until:", "        if next_step_time <= world.until:", ["C02", "C05"]),
    ("notify_no_delay", "mosaik/scheduler.py",
     "dest_sim.schedule_step(sim.output_time + delay)",
     "dest_sim.schedule_step(sim.output_time + dest_sim.from_world_time if len(sim.output_time) == 1 else sim.output_time + delay)",
     ["C02"]),
    ("no_newer_step_set", "mosaik/simmanager.py",
     "        if is_earlier:\n            self.newer_step.set()\n", "", ["C05", "C02"]),
    ("buffer_lt", "mosaik/simmanager.py",
     "while len(self.input_queue) > 0 and self.input_queue[0][0] <= step:",
     "while len(self.input_queue) > 0 and self.input_queue[0][0] < step:", ["C03"]),
    ("cache_lookup_lt", "mosaik/simmanager.py",
     "            if data_time <= time:\n                return value",
     "            if data_time < time:\n                return value", ["C03"]),
    ("shift_ignored_in_push", "mosaik/scheduler.py",
     "output_time + time_shift.tiers[0], sid, src_eid, dest_eid, dest_attr, val",
     "output_time, sid, src_eid, dest_eid, dest_attr, val", ["C03"]),
    ("swap_eid_in_push", "mosaik/scheduler.py",
     "output_time + time_shift.tiers[0], sid, src_eid, dest_eid, dest_attr, val",
     "output_time + time_shift.tiers[0], sid, dest_eid, dest_eid, dest_attr, val", ["C03"]),
    ("no_merge_back", "mosaik/scheduler.py",
     "        sim.persistent_inputs,\n        input_data,\n    )\n    return input_data",
     "        {},\n        input_data,\n    )\n    return input_data", ["C03"]),
    ("advance_only_self", "mosaik/scheduler.py",
     "            for isim in world.sims.values():\n                advance_progress(isim, world)",
     "            advance_progress(sim, world)", ["C05"]),
    ("lazy_dropped", "mosaik/scheduler.py",
     "    if lazy_stepping:\n        # Lazy stepping only", "    if False:\n        # Lazy stepping only", ["C10"]),
    ("max_advance_no_ancestors", "mosaik/scheduler.py",
     "    return min([*ancs_next_steps, *own_next_step, until + 1]) - 1",
     "    return min([*own_next_step, until + 1]) - 1", ["C07"]),
    ("max_advance_no_minus", "mosaik/scheduler.py",
     "    return min([*ancs_next_steps, *own_next_step, until + 1]) - 1",
     "    return min([*ancs_next_steps, *own_next_step, until + 1])", ["C07"]),
    ("loop_guard_gt", "mosaik/scheduler.py",
     "t >= world.max_loop_iterations for t in sim.current_step.tiers[1:]",
     "t > world.max_loop_iterations for t in sim.current_step.tiers[1:]", ["C09"]),
    ("loop_guard_first_tier_only", "mosaik/scheduler.py",
     "t >= world.max_loop_iterations for t in sim.current_step.tiers[1:]",
     "t >= world.max_loop_iterations for t in sim.current_step.tiers[1:2]", ["C09"]),
    ("cycle_check_first_tier", "mosaik/scenario.py",
     "            if all(t == 0 for t in delay.tiers):",
     "            if delay.tiers[0] == 0:", ["C06"]),
    ("cycle_check_skip_self", "mosaik/scenario.py",
     "            if sim not in descs:\n                continue",
     "            if sim not in descs or len(descs[sim][1]) == 2:\n                continue", ["C06"]),
    ("connect_no_initial_data_check", "mosaik/scenario.py",
     "            if initial_data is SENTINEL:\n                problems.append(",
     "            if False:\n                problems.append(", ["C11"]),
    ("connect_apply_before_validate", "mosaik/scenario.py",
     "        if problems:\n            raise ScenarioError(\n                f\"The are problems connecting",
     "        if len(problems) > 1:\n            raise ScenarioError(\n                f\"The are problems connecting", ["C11"]),
    ("next_step_le", "mosaik/scheduler.py",
     "        if next_step_time <= sim.current_step.time:", "        if next_step_time < sim.current_step.time:", ["C13"]),
    ("no_int_check", "mosaik/scheduler.py",
     "        if not isinstance(next_step_time, int):", "        if False:", ["C13"]),
    ("no_output_time_check", "mosaik/scheduler.py",
     "        if sim.last_step.time > output_time:", "        if False:", ["C13"]),
    ("no_shutdown_in_finally", "mosaik/scenario.py",
     "            self.tqdm.close()\n            self.shutdown()", "            self.tqdm.close()\n            if success: self.shutdown()", ["C14"]),
    ("stop_only_first", "mosaik/scenario.py",
     "            for sim in self.sims.values():\n                self.loop.run_until_complete(sim.stop())",
     "            for sim in list(self.sims.values())[:1]:\n                self.loop.run_until_complete(sim.stop())", ["C14"]),
    ("adapter_22_to_23", "mosaik/adapters.py", "    if version < [2, 2]:", "    if version < [2, 3]:", ["C15"]),
    ("adapter_step_args", "mosaik/adapters.py", 'request = ("step", args[0:2], kwargs)', 'request = ("step", args, kwargs)', ["C15"]),
    ("version_4_gt", "mosaik/adapters.py", "    if version >= [4]:", "    if version > [4]:", ["C15"]),
    ("set_data_not_reset", "mosaik/scheduler.py",
     "    sim.inputs_from_set_data = {}\n", "", ["C16"]),
    ("no_assert_async", "mosaik/simmanager.py",
     "                self._assert_async_requests(src_sim, self.sim)\n                inputs = src_sim.inputs_from_set_data",
     "                inputs = src_sim.inputs_from_set_data", ["C16"]),
    ("no_wait_for_async_successor", "mosaik/scheduler.py",
     "    for suc_sim, adapt in sim.successors_to_wait_for.items():\n        futures.append(suc_sim.progress.has_reached(next_step + adapt))",
     "    for suc_sim, adapt in {}.items():\n        futures.append(suc_sim.progress.has_reached(next_step + adapt))", ["C16"]),
    ("rt_ceil_floor", "mosaik/scheduler.py",
     "            TieredTime(ceil(rt_passed / world.rt_factor)) + sim.from_world_time",
     "            TieredTime(ceil(rt_passed / world.rt_factor) + 1) + sim.from_world_time", ["C17"]),
    ("set_event_le", "mosaik/simmanager.py",
     "        if event_time < self.world.until:", "        if event_time <= self.world.until:", ["C17"]),
    ("rt_check_sign", "mosaik/scheduler.py", "        if delta > 0:\n            if rt_strict:", "        if delta < 0:\n            if rt_strict:", ["C17"]),
    ("connect_randomly_gt", "mosaik/util.py", "        if connects[dest] >= max_connects:", "        if connects[dest] > max_connects:", ["C18"]),
    ("connect_evenly_pos", "mosaik/util.py", "        pos += dest_size", "        pos += max(1, dest_size - 1)", ["C18"]),
    ("outset_and", "mosaik/in_or_out_set.py", "            return other - self._set", "            return other & self._set", ["C12"]),
    ("cycle_message_wrong_path", "mosaik/scenario.py", "sim_descs[src_sim][dest_sim] = (src_to_dest, [src_sim] + path)",
     "sim_descs[src_sim][dest_sim] = (src_to_dest, [src_sim] + path[:1] + path)", ["C06"]),
    ("loop_guard_names_other_sim", "mosaik/scheduler.py", 'f"Simulator {sim.sid} has performed a sub-step more than "',
     'f"Simulator {sorted(world.sims)[-1]} has performed a sub-step more than "', ["C09"]),
    ("set_event_after_end_no_warning", "mosaik/simmanager.py", '            logger.warning(\n                "Event set at',
     '            logger.debug(\n                "Event set at', ["C17"]),
    ("tiered_add_cutoff_max", "mosaik/tiered_time.py", "        cutoff = min(self.cutoff, other.cutoff)", "        cutoff = max(self.cutoff, other.cutoff)", ["C08"]),
]


def run(names):
    results = []
    for name, rel, old, new, props in MUTANTS:
        if names and not any(n in name for n in names):
            continue
        scratch = tempfile.mkdtemp(prefix="mvf_mut_")
        try:
            shutil.copytree(os.path.join(REPO, "mosaik"), os.path.join(scratch, "mosaik"),
                            ignore=shutil.ignore_patterns("__pycache__"))
            path = os.path.join(scratch, rel)
            src = open(path).read()
            if old not in src:
                results.append((name, "PATTERN-NOT-FOUND", {}))
                print(f"{name:36s} PATTERN NOT FOUND", flush=True)
                continue
            open(path, "w").write(src.replace(old, new, 1))
            out = {}
            for p in props:
                if not os.path.exists(os.path.join(VERIF, "mvf", "props", p.lower() + ".py")):
                    out[p] = "no-check"
                    continue
                env = dict(os.environ, MVF_REPO=scratch, MVF_NO_EVIDENCE="1")
                r = subprocess.run([os.path.join(VERIF, "check"), p, "quick"], env=env, capture_output=True,
                                   text=True, timeout=1500)
                rules = sorted({l.split("rule=")[1].split()[0] for l in r.stdout.splitlines() if "rule=" in l})
                out[p] = f"rc={r.returncode} {rules[:4]}"
            results.append((name, "ok", out))
            print(f"{name:36s} {out}", flush=True)
        finally:
            shutil.rmtree(scratch, ignore_errors=True)
            shutil.rmtree(os.path.join(VERIF, "replays"), ignore_errors=False) if False else None
    return results


if __name__ == "__main__":
    run(sys.argv[1:])

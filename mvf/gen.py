"""Hypothesis strategies for scenarios, behaviours and schedules (DESIGN section 3).

Sound first: only scenarios the documentation allows, validity by construction (slot uniqueness,
initial data exactly where connect requires it, weak only inside a shared non-root group, weak into a
trigger input only from a non-persistent output, backward edges of a random linear order are shifted
or weak).  Scenarios that mosaik's own cycle check still rejects are counted by the checks.
"""
from __future__ import annotations

from hypothesis import strategies as st

TYPES = ("time-based", "event-based", "hybrid")
OUTS = {"time-based": ["po"], "event-based": ["eo"], "hybrid": ["po", "eo"]}
INS = {"time-based": ["mi"], "event-based": ["ti"], "hybrid": ["mi", "ti"]}
PATHS = [(), (), (0,), (0,), (1,), (0, 0), (0, 1)]


def build_tree(paths, order_keys):
    """paths: sid -> tuple path (abstract group labels); returns nested list tree whose positional
    group paths reproduce the same nesting."""
    def node(prefix):
        here = [s for s, p in paths.items() if p == prefix]
        kids = sorted({p[len(prefix)] for s, p in paths.items()
                       if len(p) > len(prefix) and p[:len(prefix)] == prefix})
        children = [(order_keys.get(s, 0), s) for s in here]
        for k in kids:
            sub = node(prefix + (k,))
            children.append((order_keys.get(("g",) + prefix + (k,), 0), sub))
        children.sort(key=lambda x: (x[0], str(x[1])))
        return [c[1] for c in children]
    return node(())


def lca_depth(p, q):
    d = 0
    for x, y in zip(p, q):
        if x == y:
            d += 1
        else:
            break
    return d + 1          # the root counts as depth 1


@st.composite
def behaviour(draw, typ, n_ent, rt=False):
    b = {}
    if typ == "time-based":
        b["steps"] = draw(st.lists(st.integers(1, 3), min_size=1, max_size=3))
        if draw(st.integers(0, 5)) == 0:
            b["const_po"] = True          # constant measurement, identical reply object handed out again
    else:
        b["steps"] = draw(st.lists(st.sampled_from([0, 0, 1, 1, 2, 3]), min_size=1, max_size=4))
        b["emit"] = draw(st.lists(st.integers(0, 2 ** n_ent - 1) | st.just(2 ** n_ent - 1),
                                  min_size=1, max_size=4))
        b["budget"] = draw(st.sampled_from([1, 1, 2, 3]))
        if draw(st.integers(0, 4)) == 0:
            b["future"] = draw(st.lists(st.sampled_from([0, 0, 1, 2, 3]), min_size=1, max_size=3))
    return b


@st.composite
def scenarios(draw, max_sims=5, min_sims=1, types=TYPES, allow_mem=True, allow_weak=True,
              allow_groups=True, max_until=8, debug_ok=True, sensitive=False, max_conns=8,
              lazy=None, cache=None, future_ok=True, allow_sync=True, parallel=True, late_initial=True,
              script_ok=True, allow_async=True):
    n = draw(st.integers(min_sims, max_sims))
    sids = [f"S{i}" for i in range(n)]
    paths = {}
    for s in sids:
        paths[s] = draw(st.sampled_from(PATHS)) if allow_groups else ()
    keys = {}
    for s in sids:
        keys[s] = draw(st.integers(0, 3))
    for p in set(paths.values()):
        for i in range(1, len(p) + 1):
            keys[("g",) + p[:i]] = draw(st.integers(0, 3))
    tree = build_tree(paths, keys)
    sims = []
    typ = {}
    nent = {}
    for s in sids:
        typ[s] = draw(st.sampled_from(types))
        nent[s] = draw(st.sampled_from([1, 2, 2]))
        sp = {"sid": s, "type": typ[s], "n_ent": nent[s]}
        tr = draw(st.integers(0, 7))
        if allow_mem and tr == 0:
            sp["transport"] = "mem"
        elif allow_sync and tr in (1, 2):
            sp["transport"] = "sync"      # ungated: immediate replies, like the repository's test simulators
        sp["beh"] = draw(behaviour(typ[s], nent[s]))
        if not future_ok:
            sp["beh"].pop("future", None)
        if sensitive:
            sp["beh"]["sensitive"] = True
        if typ[s] == "hybrid" and draw(st.integers(0, 5)) == 0:
            sp["via_children"] = True     # connected entities are children of a non-public model (hierarchical create())
        sims.append(sp)
    rank = draw(st.permutations(sids))
    rk = {s: i for i, s in enumerate(rank)}
    conns = []
    slots = set()
    nconn = draw(st.integers(0, max_conns))
    for _ in range(nconn):
        src = draw(st.sampled_from(sids))
        dst = draw(st.sampled_from(sids))
        sa = draw(st.sampled_from(OUTS[typ[src]]))
        da = draw(st.sampled_from(INS[typ[dst]]))
        se = draw(st.integers(0, nent[src] - 1))
        de = draw(st.integers(0, nent[dst] - 1))
        slot = (src, se, dst, de, da)
        if slot in slots:
            continue
        weak_ok = allow_weak and lca_depth(paths[src], paths[dst]) >= 2
        if weak_ok and da == "ti" and sa != "eo":
            if "eo" in OUTS[typ[src]]:
                sa_weak = "eo"
            else:
                weak_ok = False
        backward = rk[src] >= rk[dst]
        kinds = ["shift1", "shift1", "shift2"] + (["weak", "weak", "weak"] if weak_ok else [])
        if not backward:
            kinds += ["plain"] * 6
        kind = draw(st.sampled_from(kinds))
        c = {"src": src, "se": se, "sa": sa, "dst": dst, "de": de, "da": da}
        if kind == "shift1":
            c["shift"] = 1
        elif kind == "shift2":
            c["shift"] = 2
        elif kind == "weak":
            c["weak"] = True
            if da == "ti" and sa != "eo":
                c["sa"] = "eo"
        if (c.get("shift") or c.get("weak")) and da == "mi":
            c["init"] = True
        slots.add(slot)
        conns.append(c)
        # a second connection of another kind between the same pair (through another entity): C01/C02/C05/C07
        # defects in the per-pair minimum of delays need exactly this shape
        if parallel and (nent[src] > 1 or nent[dst] > 1) and draw(st.integers(0, 3)) == 0:
            se2 = (se + 1) % nent[src]
            de2 = (de + 1) % nent[dst]
            slot2 = (src, se2, dst, de2, da)
            if slot2 not in slots:
                c2 = {"src": src, "se": se2, "sa": c["sa"], "dst": dst, "de": de2, "da": da}
                k2 = draw(st.sampled_from(["shift1", "shift2", "plain"] if not backward else ["shift1", "shift2"]))
                if k2 == "shift1" and c.get("shift") == 1:
                    k2 = "shift2"
                if k2.startswith("shift"):
                    c2["shift"] = int(k2[-1])
                    if da == "mi":
                        c2["init"] = True
                if k2 != "plain" or c.get("shift") or c.get("weak"):
                    slots.add(slot2)
                    conns.append(c2)
    ie = {}
    for s in sids:
        if typ[s] == "event-based" and draw(st.integers(0, 3)) > 0:
            ie[s] = draw(st.sampled_from([0, 0, 0, 1, 2]))
        elif typ[s] != "event-based" and late_initial and draw(st.integers(0, 7)) == 0:
            # accepted by the API although only documented for event-based simulators: the first step moves
            ie[s] = draw(st.sampled_from([0, 1, 2, 3]))
    # async_requests on the call of an existing data-flow (the destination may then use set_data / get_data towards
    # the source; the source has to wait for it): only the flag, the scripted simulators issue no such requests here
    asyncs = []
    if allow_async and conns and draw(st.integers(0, 5)) == 0:
        cands = [c_ for c_ in conns if c_["src"] != c_["dst"]]
        if cands:
            ca = cands[draw(st.integers(0, len(cands) - 1))]
            if [ca["src"], ca["dst"]] not in asyncs and not any(
                    c_.get("async") for c_ in conns if (c_["src"], c_["dst"]) == (ca["src"], ca["dst"])):
                ca["async"] = True
                asyncs.append([ca["src"], ca["dst"]])
    until = draw(st.integers(1, max_until))
    scn = {
        "tree": tree, "sims": sims, "conns": conns, "initial_events": ie, "until": until,
        "world": {"cache": draw(st.booleans()) if cache is None else cache},
        "run": {"lazy_stepping": draw(st.booleans()) if lazy is None else lazy},
    }
    if asyncs:
        scn["async"] = asyncs
    if debug_ok and draw(st.integers(0, 7)) == 0:
        scn["world"]["debug"] = True
    if script_ok:
        # how the scenario script is written (all documented usage): connecting inside still open group blocks,
        # World.get_data() before the run, the progress displays of run()
        scr = draw(st.integers(0, 19))
        if scr == 0:
            scn["script"] = {"connect_early": True}
        elif scr == 1:
            scn["script"] = {"pre_get_data": True}
        elif scr == 2:
            scn["script"] = {"connect_early": True, "pre_get_data": True}
        elif scr == 3:
            scn["run"]["print_progress"] = "individual"
        elif scr == 4:
            scn["run"]["print_progress"] = True
            scn["run"]["print_progress_default"] = draw(st.booleans())
        # value shapes: any JSON value is valid data (objects with changing key sets, falsy values incl. an explicit
        # None, small domains with repeats).  Not in the regimes of the open findings F10 (pulled initial data) and
        # F12 (weak connections), whose signatures identify values by their unique tokens.
        if not any(c.get("weak") or c.get("init") for c in conns):
            for sp in sims:
                vs = draw(st.integers(0, 11))
                if vs < 4:
                    sp["beh"]["vstyle"] = ["dict", "falsy", "small", "list"][vs]
    return scn


@st.composite
def schedules(draw, sids=("S0", "S1", "S2", "S3", "S4"), max_picks=40):
    pol = draw(st.sampled_from(["fifo", "fifo", "lifo", "starve", "prefer", "picks", "picks", "picks"]))
    s = {}
    if pol == "starve":
        s = {"policy": "starve", "arg": draw(st.sampled_from(list(sids)))}
    elif pol == "prefer":
        s = {"policy": "prefer", "arg": draw(st.sampled_from(["step", "get"]))}
    elif pol == "lifo":
        s = {"policy": "lifo"}
    elif pol == "picks":
        s = {"picks": draw(st.lists(st.integers(0, 4), min_size=1, max_size=max_picks))}
        if draw(st.booleans()):
            s["policy"] = draw(st.sampled_from(["lifo", "fifo"]))
    if draw(st.integers(0, 5)) == 0:
        s["early"] = {str(draw(st.integers(0, 40))): draw(st.integers(1, 3))
                      for _ in range(draw(st.integers(1, 4)))}
    return s


@st.composite
def cases(draw, **kw):
    scn = draw(scenarios(**kw))
    sids = [s["sid"] for s in scn["sims"]]
    return {"scenario": scn, "schedule": draw(schedules(sids=sids))}


# ------------------------------------------------------------------------------------------
# curated micro-topologies (for deviation-bounded exhaustive schedule enumeration)

def _sim(sid, typ, **beh):
    b = {"steps": [1] if typ == "time-based" else [0]}
    b.update(beh)
    return {"sid": sid, "type": typ, "n_ent": 1, "beh": b}


def _c(src, sa, dst, da, **kw):
    c = {"src": src, "se": 0, "sa": sa, "dst": dst, "de": 0, "da": da}
    c.update(kw)
    return c


def micro_scenarios():
    """name -> scenario"""
    out = {}
    out["pair_tb"] = {"tree": ["A", "B"], "sims": [_sim("A", "time-based"), _sim("B", "time-based", steps=[2])],
                      "conns": [_c("A", "po", "B", "mi")], "until": 4}
    out["chain3"] = {"tree": ["A", "B", "C"],
                     "sims": [_sim("A", "time-based", steps=[2]), _sim("B", "hybrid", steps=[1]),
                              _sim("C", "event-based", emit=[1])],
                     "conns": [_c("A", "po", "B", "mi"), _c("B", "eo", "C", "ti")], "until": 4}
    out["diamond"] = {"tree": ["A", "B", "C", "D"],
                      "sims": [_sim("A", "time-based"), _sim("B", "time-based", steps=[2]),
                               _sim("C", "hybrid", steps=[1], emit=[1]), _sim("D", "hybrid", steps=[0])],
                      "conns": [_c("A", "po", "B", "mi"), _c("A", "po", "C", "mi"), _c("B", "po", "D", "mi"),
                                _c("C", "eo", "D", "ti")], "until": 3}
    out["shifted_cycle"] = {"tree": ["A", "B"], "sims": [_sim("A", "time-based"), _sim("B", "time-based")],
                            "conns": [_c("A", "po", "B", "mi"), _c("B", "po", "A", "mi", shift=1, init=True)],
                            "until": 3}
    out["weak_loop"] = {"tree": [["A", "B"]],
                        "sims": [_sim("A", "event-based", emit=[1], budget=2),
                                 _sim("B", "event-based", emit=[1], budget=2)],
                        "conns": [_c("A", "eo", "B", "ti"), _c("B", "eo", "A", "ti", weak=True)],
                        "initial_events": {"A": 0}, "until": 2}
    out["group_crossing"] = {"tree": [["A", "B"], "C"],
                             "sims": [_sim("A", "event-based", emit=[1], budget=2, steps=[1]),
                                      _sim("B", "event-based", emit=[1], budget=2), _sim("C", "hybrid", steps=[1])],
                             "conns": [_c("A", "eo", "B", "ti"), _c("B", "eo", "A", "ti", weak=True),
                                       _c("A", "eo", "C", "ti")],
                             "initial_events": {"A": 0}, "until": 2}
    out["nested"] = {"tree": [["A", ["B", "C"]]],
                     "sims": [_sim("A", "hybrid", steps=[1], emit=[1]),
                              _sim("B", "event-based", emit=[1], budget=2), _sim("C", "event-based", emit=[1], budget=2)],
                     "conns": [_c("A", "eo", "B", "ti"), _c("B", "eo", "C", "ti"), _c("C", "eo", "B", "ti", weak=True),
                               _c("C", "eo", "A", "ti", weak=True)],
                     "until": 2}
    out["two_kinds"] = {"tree": ["A", "B"],
                        "sims": [dict(_sim("A", "hybrid", steps=[1], emit=[3]), n_ent=2),
                                 dict(_sim("B", "hybrid", steps=[2], emit=[1]), n_ent=2)],
                        "conns": [_c("A", "po", "B", "mi"), dict(_c("A", "eo", "B", "ti", shift=1), se=1, de=1),
                                  _c("B", "eo", "A", "ti", shift=2)],
                        "until": 4}
    out["leave_reenter"] = {"tree": [["A", "B"], "C"],
                            "sims": [_sim("A", "time-based"), _sim("B", "time-based"), _sim("C", "time-based")],
                            "conns": [_c("A", "po", "C", "mi"), _c("C", "po", "B", "mi"), _c("A", "po", "B", "mi")],
                            "until": 3}
    out["trigger_chain"] = {"tree": ["A", "B", "C"],
                            "sims": [_sim("A", "event-based", steps=[2], emit=[1]),
                                     _sim("B", "event-based", emit=[1]), _sim("C", "event-based", emit=[1])],
                            "conns": [_c("A", "eo", "B", "ti"), _c("B", "eo", "C", "ti"), _c("A", "eo", "C", "ti", shift=1)],
                            "initial_events": {"A": 0}, "until": 5}
    out["fast_slow"] = {"tree": ["A", "B", "C"],
                        "sims": [_sim("A", "time-based", steps=[1]), _sim("B", "time-based", steps=[3]),
                                 _sim("C", "time-based", steps=[2])],
                        "conns": [_c("A", "po", "B", "mi"), _c("A", "po", "C", "mi"), _c("C", "po", "B", "mi", shift=1, init=True)],
                        "until": 6}
    # chain X -> A -> C where A feeds C over two triggering connections of different delay, the slower one
    # connected last, and X triggers A: per-pair minimum of delays, direct and transitive
    out["parallel_trigger_chain"] = {
        "tree": ["X", "A", "C"],
        "sims": [_sim("X", "event-based", steps=[2], emit=[1]), dict(_sim("A", "event-based", emit=[1]), n_ent=2),
                 dict(_sim("C", "hybrid", steps=[3], emit=[0]), n_ent=2)],
        "conns": [_c("X", "eo", "A", "ti"), _c("A", "eo", "C", "ti"),
                  dict(_c("A", "eo", "C", "ti", shift=1), se=1, de=1)],
        "initial_events": {"X": 0}, "until": 6}
    # pulled (persistent, cache) connections of different delay between one pair: shift 2 into a trigger input
    # (no initial data) next to a plain one
    out["pulled_shift2_and_plain"] = {
        "tree": ["A", "B"],
        "sims": [dict(_sim("A", "time-based", steps=[1]), n_ent=2), dict(_sim("B", "hybrid", steps=[1], emit=[0]), n_ent=2)],
        "conns": [_c("A", "po", "B", "mi"), dict(_c("A", "po", "B", "ti", shift=2), se=1, de=1)],
        "until": 6}
    # a grouped simulator gets the sub-step (5,1) scheduled (weak, future output time) and - depending on the
    # schedule before or after it - the earlier sub-step (5,0) of the same time
    out["substep_then_earlier_substep"] = {
        "tree": [["A", "B", "C"]],
        "sims": [_sim("A", "event-based", emit=[0]), _sim("B", "event-based", emit=[1], future=[5]),
                 _sim("C", "event-based", emit=[1], future=[5])],
        "conns": [_c("B", "eo", "A", "ti", weak=True), _c("C", "eo", "A", "ti")],
        "initial_events": {"B": 0, "C": 0}, "until": 7}
    # a producer whose measurement does not change (it hands out the identical reply object again) and a consumer
    # that steps between two producer steps, plus an unrelated third simulator
    out["const_producer_fast_consumer"] = {
        "tree": ["A", "B", "C"],
        "sims": [_sim("A", "time-based", steps=[3], const_po=True), _sim("B", "time-based", steps=[1]),
                 _sim("C", "time-based", steps=[2])],
        "conns": [_c("A", "po", "B", "mi")], "until": 7}
    # set_initial_event on a hybrid simulator (its first step moves from 0 to 2) that is triggered exactly at 0, at
    # the initial event's time and later
    out["late_initial_event_hybrid"] = {
        "tree": ["A", "B"],
        "sims": [_sim("A", "hybrid", steps=[1], emit=[1]), _sim("B", "hybrid", steps=[0], emit=[0])],
        "conns": [_c("A", "eo", "B", "ti")],
        "initial_events": {"B": 2}, "until": 4}
    # a controller in a group and its plant in a sub-group of it: weak forward edge (the plant runs at a sub-step of
    # the outer group), time-shifted back edge
    out["nested_weak_forward_shift_back"] = {
        "tree": [["X", ["Y"]]],
        "sims": [_sim("X", "hybrid", steps=[1], emit=[1]), _sim("Y", "hybrid", steps=[0], emit=[0])],
        "conns": [_c("X", "eo", "Y", "ti", weak=True), _c("Y", "po", "X", "mi", shift=1, init=True)],
        "until": 5}
    # three simulators in one group: E is only stepped by W's weak output (at sub-step (t,1)), feeds C plainly and
    # reads C's time-shifted measurement (a cycle E -> C -> E); C may still be busy with t-1 when E is due
    out["weak_triggered_reader_of_shifted_loop"] = {
        "tree": [["W", "E", "C"]],
        "sims": [_sim("W", "time-based", steps=[1]), _sim("E", "hybrid", steps=[0], emit=[0]),
                 _sim("C", "time-based", steps=[1])],
        "conns": [_c("W", "po", "E", "ti", weak=True), _c("E", "po", "C", "mi"),
                  _c("C", "po", "E", "mi", shift=1, init=True)],
        "until": 4}
    # a same-time loop P <-> Q in a group; S in the same group is triggered plainly by P and also reads a slow
    # outside simulator R, so S's step (t,0) can be computed while P's later iteration (t,1) is in flight; that
    # iteration announces P's next time step (not known to any queue before) and emits towards S again
    out["loop_member_feeds_groupmate_held_back"] = {
        "tree": [["P", "Q", "S"], "R"],
        "sims": [dict(_sim("P", "event-based", steps=[0, 1], emit=[1], budget=2), transport="mem"),
                 _sim("Q", "event-based", emit=[1], budget=1),
                 _sim("S", "hybrid", steps=[0], emit=[0]),
                 dict(_sim("R", "time-based", steps=[1]), transport="mem")],
        "conns": [_c("P", "eo", "Q", "ti"), _c("Q", "eo", "P", "ti", weak=True), _c("P", "eo", "S", "ti"),
                  _c("R", "po", "S", "mi")],
        "initial_events": {"P": 0}, "until": 3}
    # three levels: a same-time loop R <-> S at the level of the outer group, S and its consumer T in an inner group,
    # T also reads (non-trigger) an ungrouped O that itself reads S: with lazy stepping S must not wait for T at a
    # sub-step of the outer loop, because T's pending step needs O, which needs the loop's time step to end
    out["inner_consumer_blocked_by_outside_reader_of_loop"] = {
        "tree": ["O", ["R", ["S", "T"]]],
        "sims": [_sim("O", "time-based", steps=[1]), _sim("R", "event-based", emit=[1], budget=2),
                 _sim("S", "event-based", steps=[1], emit=[1], budget=2), _sim("T", "time-based", steps=[1])],
        "conns": [_c("S", "eo", "R", "ti"), _c("R", "eo", "S", "ti", weak=True), _c("S", "eo", "T", "mi"),
                  _c("O", "po", "T", "mi"), _c("S", "eo", "O", "mi")],
        "initial_events": {"S": 0}, "until": 3}
    # async_requests towards a member of a same-time loop's group: S (in the loop S <-> R) must wait for T because of
    # the async_requests flag, T also waits for an outside O that reads S.  Found by a sub-agent's fuzzer on the
    # unchanged tree (F24): S at sub-step (t,1) waited for T to reach (t,1), T waited for O, O for S's time step
    out["async_requests_inside_same_time_loop"] = {
        "tree": ["O", ["S", "R", "T"]],
        "sims": [_sim("O", "event-based", emit=[1]), _sim("S", "event-based", emit=[1], budget=2),
                 _sim("R", "event-based", emit=[1], budget=2), _sim("T", "event-based", emit=[0])],
        "conns": [_c("S", "eo", "R", "ti"), _c("R", "eo", "S", "ti", weak=True),
                  dict(_c("S", "eo", "T", "ti"), **{"async": True}), _c("O", "eo", "T", "ti"), _c("S", "eo", "O", "ti")],
        "async": [["S", "T"]],
        "initial_events": {"S": 0}, "until": 2}
    # hierarchical entities: the connected entities of the hybrid simulators are children of a non-public model
    out["child_entities_of_private_model"] = {
        "tree": ["A", "B", "C"],
        "sims": [dict(_sim("A", "hybrid", steps=[2], emit=[1]), via_children=True),
                 dict(_sim("B", "hybrid", steps=[0], emit=[1]), via_children=True), _sim("C", "time-based", steps=[1])],
        "conns": [_c("A", "eo", "B", "ti"), _c("A", "po", "B", "mi"), _c("B", "po", "C", "mi"), _c("B", "eo", "A", "ti", shift=1)],
        "until": 7}
    # value shapes: measurements that are falsy JSON values (an explicit None, 0, "", False, [], {}) between ordinary
    # ones, read by a faster and a slower consumer
    out["falsy_measurements"] = {
        "tree": ["A", "B", "C"],
        "sims": [_sim("A", "time-based", steps=[1], vstyle="falsy"), _sim("B", "time-based", steps=[1]),
                 _sim("C", "time-based", steps=[2])],
        "conns": [_c("A", "po", "B", "mi"), _c("A", "po", "C", "mi")], "until": 8}
    # a measurement from a tiny domain (repeats in consecutive steps, returns to old values), producer slower
    out["repeating_measurements"] = {
        "tree": ["A", "B"],
        "sims": [_sim("A", "time-based", steps=[2, 1], vstyle="small"), _sim("B", "time-based", steps=[1])],
        "conns": [_c("A", "po", "B", "mi")], "until": 9}
    # JSON objects whose key sets change from step to step, as measurement and as event
    out["object_values"] = {
        "tree": ["A", "B"],
        "sims": [_sim("A", "hybrid", steps=[1], emit=[1], vstyle="dict"), _sim("B", "hybrid", steps=[2], emit=[0])],
        "conns": [_c("A", "po", "B", "mi"), _c("A", "eo", "B", "ti")], "until": 6}
    # the scenario script queries the (constant) measurement with World.get_data() before run(), and connects
    # inside the still open group block
    out["constant_measurement_queried_before_run"] = {
        "tree": [["A", "B"], "C"],
        "sims": [_sim("A", "time-based", steps=[2], const_po=True), _sim("B", "time-based", steps=[1]),
                 _sim("C", "time-based", steps=[1])],
        "conns": [_c("A", "po", "B", "mi"), _c("A", "po", "C", "mi")], "until": 5,
        "script": {"pre_get_data": True, "connect_early": True}}
    for s in out.values():
        s.setdefault("initial_events", {})
        s.setdefault("world", {"cache": True})
        s.setdefault("run", {"lazy_stepping": True})
    return out


def long_scenarios():
    """A few *long* runs (until 80..1100): fast paths and bookkeeping that only engage beyond a size threshold
    (dozens of pending steps or cache entries, a thousand steps of one simulator) are never reached by the small
    generated scenarios; also large time values and many simulators.  Run under a handful of fixed schedules, not
    enumerated."""
    out = {}
    # a producer running far ahead (lazy off) leaves the triggered simulator with dozens of pending steps; its
    # self-scheduled step coincides with a trigger from a loop closed with a time shift
    out["long_runahead_trigger_loop"] = {
        "tree": ["A", "B", "C"],
        "sims": [_sim("A", "time-based", steps=[2]), _sim("B", "hybrid", steps=[1], emit=[1]),
                 _sim("C", "event-based", emit=[1])],
        "conns": [_c("A", "po", "B", "ti"), _c("B", "eo", "C", "ti"), _c("C", "eo", "B", "ti", shift=1)],
        "until": 80, "world": {"cache": True}, "run": {"lazy_stepping": False}, "initial_events": {}}
    # a sparse producer far ahead of a consumer that steps between its outputs: a long output cache
    out["long_sparse_producer"] = {
        "tree": ["P", "C"],
        "sims": [_sim("P", "time-based", steps=[3]), _sim("C", "time-based", steps=[1])],
        "conns": [_c("P", "po", "C", "mi")],
        "until": 120, "world": {"cache": True}, "run": {"lazy_stepping": False}, "initial_events": {}}
    # more than a thousand steps per simulator, two independent producer -> triggered consumer pairs
    many = {
        "tree": ["X", "D", "Z", "W"],
        "sims": [_sim("X", "time-based", steps=[1]), _sim("D", "event-based", emit=[0]),
                 _sim("Z", "time-based", steps=[1]), _sim("W", "event-based", emit=[0])],
        "conns": [_c("X", "po", "D", "ti"), _c("Z", "po", "W", "ti")],
        "until": 1100, "world": {"cache": True}, "run": {"lazy_stepping": True}, "initial_events": {}}
    out["long_many_steps"] = many
    import copy
    sync = copy.deepcopy(many)
    for sm in sync["sims"]:
        sm["transport"] = "sync"        # immediate replies, like the repository's own test simulators
    out["long_many_steps_sync"] = sync
    # large time values (strides and shifts of hundreds): nothing in the code may depend on times being small
    out["long_big_times"] = {
        "tree": ["A", "B", "C"],
        "sims": [_sim("A", "hybrid", steps=[300], emit=[0]), _sim("B", "hybrid", steps=[450], emit=[1], future=[150, 0]),
                 _sim("C", "event-based", emit=[1])],
        "conns": [_c("A", "po", "B", "mi"), _c("B", "eo", "C", "ti"), _c("C", "eo", "A", "ti", shift=300)],
        "until": 3000, "world": {"cache": True}, "run": {"lazy_stepping": True}, "initial_events": {}, "few_steps": True}
    # many simulators (24, a third of them in a group): a chain with time-shifted shortcuts
    n = 24
    sims = [_sim(f"N{i:02d}", "time-based" if i % 3 else "hybrid", steps=[1 + i % 2]) for i in range(n)]
    conns = [_c(f"N{i:02d}", "po", f"N{i + 1:02d}", "mi") for i in range(n - 1)]
    conns += [_c(f"N{i:02d}", "po", f"N{(i + 5) % n:02d}", "ti" if (i + 5) % n % 3 == 0 else "mi", shift=1,
                 init=((i + 5) % n % 3 != 0)) for i in range(0, n, 4)]
    out["long_many_sims"] = {
        "tree": [x["sid"] for x in sims[:8]] + [[x["sid"] for x in sims[8:16]]] + [x["sid"] for x in sims[16:]],
        "sims": sims, "conns": conns, "until": 4, "world": {"cache": True}, "run": {"lazy_stepping": True},
        "initial_events": {}, "few_steps": True}
    return out


def long_cases(max_until=None):
    """(name, case) pairs: every long scenario under FIFO, LIFO and with its second simulator starved"""
    for name, scn in sorted(long_scenarios().items()):
        if max_until is not None and scn["until"] > max_until:
            continue
        scheds = [{}, {"policy": "lifo"}]
        if scn["until"] <= 200 or scn.get("few_steps"):
            scheds.append({"policy": "starve", "arg": scn["sims"][1]["sid"]})
        for sched in scheds:
            yield name, {"scenario": scn, "schedule": sched}

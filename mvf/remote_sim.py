"""A real simulator process for the real-process tier of C14:  python remote_sim.py HOST:PORT

Parameters arrive with init(): case_dir (marker files), die_req (request index at which to fail), die_kind
('exit' = os._exit, 'raise' = exception in the handler).  Marker files: pid_<sid>, fin_<sid> (one line per
finalize call), req_<sid> (one line per request)."""
import os
import sys

import mosaik_api_v3


class ProcSim(mosaik_api_v3.Simulator):
    def __init__(self):
        super().__init__({"api_version": "3.0", "type": "time-based",
                          "models": {"M": {"public": True, "params": [], "attrs": ["a"]}}})
        self.nreq = 0
        self.dir = None
        self.sid = "?"
        self.t = 0

    def init(self, sid, time_resolution=1.0, case_dir=None, die_req=None, die_kind="exit"):
        self.sid, self.dir, self.die_req, self.die_kind = sid, case_dir, die_req, die_kind
        with open(os.path.join(self.dir, f"pid_{sid}"), "w") as f:
            f.write(str(os.getpid()))
        return self.meta

    def create(self, num, model):
        return [{"eid": f"e{i}", "type": model} for i in range(num)]

    def _req(self, name):
        i = self.nreq
        self.nreq += 1
        with open(os.path.join(self.dir, f"req_{self.sid}"), "a") as f:
            f.write(f"{i} {name}\n")
        if self.die_req is not None and i == self.die_req:
            if self.die_kind == "exit":
                os._exit(17)
            raise RuntimeError(f"injected failure in {self.sid}")

    def setup_done(self):
        self._req("setup_done")

    def step(self, time, inputs, max_advance):
        self._req("step")
        self.t = time
        return time + 1

    def get_data(self, outputs):
        self._req("get_data")
        return {e: {a: self.t for a in attrs} for e, attrs in outputs.items()}

    def finalize(self):
        if self.dir:
            with open(os.path.join(self.dir, f"fin_{self.sid}"), "a") as f:
                f.write("finalize\n")


if __name__ == "__main__":
    sys.exit(mosaik_api_v3.start_simulation(ProcSim()))

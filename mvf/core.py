"""Shared framework: accumulators, sharding, Hypothesis driver with bounded shrinking,
known findings, replay files, evidence, verdict.

Exit codes: 0 held / 1 violation / 2 harness or environment error.
"""
from __future__ import annotations

import collections
import hashlib
import json
import multiprocessing
import os
import sys
import time
import traceback

VERIF = os.path.dirname(os.path.dirname(os.path.abspath(__file__)))
REPO = os.environ.get("MVF_REPO", "/repo")
NPROC = int(os.environ.get("MVF_NPROC", "16"))


# --------------------------------------------------------------------------------------
# small helpers

def canon(obj) -> str:
    return json.dumps(obj, sort_keys=True, separators=(",", ":"), default=str)


def case_hash(case) -> str:
    return hashlib.sha1(canon(case).encode()).hexdigest()[:16]


def jnorm(obj):
    """JSON round trip (tuples -> lists, int keys -> str) for order-insensitive comparisons."""
    return json.loads(json.dumps(obj, sort_keys=True, default=str))


def check_repo_import():
    """The code under test must come from REPO's working tree."""
    import mosaik
    path = os.path.realpath(mosaik.__file__)
    if not path.startswith(os.path.realpath(REPO) + os.sep):
        print(f"HARNESS-ERROR: mosaik imported from {path}, expected under {REPO}")
        sys.exit(2)


class Failure(dict):
    """A violation of an oracle rule. signature = rule + structural shape (narrow)."""

    def __init__(self, rule, signature=None, message="", case=None, **extra):
        super().__init__(rule=rule, signature=signature or rule, message=str(message)[:2000],
                         case=case, **extra)


class HarnessError(Exception):
    pass


# --------------------------------------------------------------------------------------
# known findings

def load_known():
    path = os.path.join(VERIF, "known_findings.json")
    if not os.path.exists(path):
        return []
    with open(path) as f:
        return json.load(f).get("findings", [])


def known_open(prop):
    """signature -> finding id, for open findings of this property."""
    out = {}
    ignore = set(filter(None, os.environ.get("MVF_IGNORE_KNOWN", "").split(",")))   # diagnostics only
    for f in load_known():
        if f["id"] in ignore:
            continue
        if f.get("status") == "open" and prop in f.get("properties", [f.get("property")]):
            for sig in f.get("signatures", [f.get("signature")]):
                out[sig] = f["id"]
    return out


# --------------------------------------------------------------------------------------
# accumulator (one per worker; merged by the parent)

class Acc:
    MAX_SAMPLES = 4

    def __init__(self, prop, budget_s=None):
        self.prop = prop
        self.evaluations = 0
        self.nontrivial = set()
        self.classes = collections.Counter()
        self.samples = []
        self.excluded = collections.Counter()
        self.aborted_other = 0
        self.failures = []          # list of Failure (unknown signatures)
        self.harness_errors = []
        self.budget_hit = False
        self.extra = {}
        self.known = known_open(prop)
        self.t0 = time.time()
        self.budget_s = budget_s

    def out_of_time(self):
        if self.budget_s is not None and time.time() - self.t0 > self.budget_s:
            self.budget_hit = True
            return True
        return False

    def record(self, case, nontrivial, classes=(), sample=None):
        self.evaluations += 1
        if nontrivial:
            h = case_hash(case)
            if h not in self.nontrivial:
                self.nontrivial.add(h)
                if len(self.samples) < self.MAX_SAMPLES:
                    self.samples.append(sample if sample is not None else case)
        for c in classes:
            self.classes[c] += 1

    def triage(self, failures):
        """Split failures into (new, known); count the known ones."""
        new = []
        for f in failures:
            fid = self.known.get(f["signature"])
            if fid is not None:
                self.excluded[fid] += 1
            else:
                new.append(f)
        return new

    def to_json(self):
        return dict(evaluations=self.evaluations, nontrivial=sorted(self.nontrivial),
                    classes=dict(self.classes), samples=self.samples,
                    excluded=dict(self.excluded), aborted_other=self.aborted_other,
                    failures=self.failures, harness_errors=self.harness_errors,
                    budget_hit=self.budget_hit, extra=self.extra)


def merge(parts):
    m = dict(evaluations=0, nontrivial=set(), classes=collections.Counter(), samples=[],
             excluded=collections.Counter(), aborted_other=0, failures=[], harness_errors=[],
             budget_hit=False, extra={})
    for p in parts:
        m["evaluations"] += p["evaluations"]
        m["nontrivial"].update(p["nontrivial"])
        m["classes"].update(p["classes"])
        for s in p["samples"]:
            if len(m["samples"]) < 5:
                m["samples"].append(s)
        m["excluded"].update(p["excluded"])
        m["aborted_other"] += p["aborted_other"]
        m["failures"].extend(p["failures"])
        m["harness_errors"].extend(p["harness_errors"])
        m["budget_hit"] = m["budget_hit"] or p["budget_hit"]
        for k, v in p.get("extra", {}).items():
            if isinstance(v, (int, float)) and not isinstance(v, bool):
                m["extra"][k] = m["extra"].get(k, 0) + v
            elif isinstance(v, bool):
                m["extra"][k] = m["extra"].get(k, True) and v
            elif isinstance(v, list):
                m["extra"].setdefault(k, [])
                m["extra"][k] = (m["extra"][k] + v)[:8]
            else:
                m["extra"][k] = v
    return m


# --------------------------------------------------------------------------------------
# sharded execution

class ShardTimeout(BaseException):
    pass


def _shard_entry(args):
    fn_mod, fn_name, kwargs = args
    import signal

    def on_alarm(sig, frm):
        # first expiry: raise into the running case; if some handler swallows that and the shard blocks again,
        # the second expiry ends the process (the parent reports a harness error, exit 2)
        if getattr(on_alarm, "fired", False):
            sys.stderr.write(f"[{kwargs.get('prop', '?')}] shard watchdog expired twice: shard process ends\n")
            sys.stderr.flush()
            os._exit(3)
        on_alarm.fired = True
        signal.alarm(120)
        raise ShardTimeout("shard watchdog expired (a case blocked outside the controlled loop?)")
    try:
        # hard watchdog: a hang is a harness error (exit 2), never a silent block
        signal.signal(signal.SIGALRM, on_alarm)
        signal.alarm(int(os.environ.get("MVF_WATCHDOG_S", "900" if kwargs.get("tier") == "quick" else "10800")))
    except Exception:  # noqa
        pass
    try:
        import importlib
        mod = importlib.import_module(fn_mod)
        acc = getattr(mod, fn_name)(**kwargs)
        signal.alarm(0)
        return acc.to_json()
    except BaseException:
        a = Acc(kwargs.get("prop", "?"))
        a.harness_errors.append(traceback.format_exc()[-3000:])
        return a.to_json()


def run_sharded(fn_mod, fn_name, shard_kwargs):
    """Run module.function(**kw) for every kw in shard_kwargs in a process pool; merge."""
    n = min(NPROC, max(1, len(shard_kwargs)))
    jobs = [(fn_mod, fn_name, kw) for kw in shard_kwargs]
    if n == 1 or os.environ.get("MVF_INLINE"):
        parts = [_shard_entry(j) for j in jobs]
    else:
        import concurrent.futures as cf
        ctx = multiprocessing.get_context("fork")
        parts = []
        with cf.ProcessPoolExecutor(n, mp_context=ctx) as pool:
            futs = [pool.submit(_shard_entry, j) for j in jobs]
            for j, f in zip(jobs, futs):
                try:
                    parts.append(f.result())
                except BaseException as e:  # noqa   (a shard process died: harness error, never a verdict)
                    a = Acc(j[2].get("prop", "?"))
                    a.harness_errors.append(f"shard process ended abnormally: {type(e).__name__}: {e}")
                    parts.append(a.to_json())
    return merge(parts)


# --------------------------------------------------------------------------------------
# Hypothesis driver with bounded shrinking

class _Violation(Exception):
    pass


def drive(strategy, check_case, acc, max_examples, seed, shrink_calls=250, label=None):
    """Generate cases from `strategy`; check_case(case, acc) -> list[Failure] (already triaged:
    only new failures).  Stops at the first new failure and lets Hypothesis shrink it, bounded by
    `shrink_calls` further executions.  The smallest failing case seen is appended to
    acc.failures."""
    import hypothesis
    from hypothesis import given, settings, HealthCheck, Phase

    state = {"best": None, "after": 0}

    @hypothesis.seed(seed)
    @settings(max_examples=max_examples, database=None, deadline=None,
              suppress_health_check=list(HealthCheck), report_multiple_bugs=False,
              phases=[Phase.generate, Phase.shrink], derandomize=False,
              print_blob=False, verbosity=hypothesis.Verbosity.quiet)
    @given(strategy)
    def prop(case):
        if state["best"] is not None:
            state["after"] += 1
            if state["after"] > shrink_calls:
                return
        elif acc.out_of_time():
            return
        fails = check_case(case, acc)
        if fails:
            f = fails[0]
            size = len(canon(case))
            if state["best"] is None or size < state["best"][0]:
                state["best"] = (size, f)
            raise _Violation(f["signature"])

    try:
        prop()
    except _Violation:
        pass
    except hypothesis.errors.Flaky:
        pass
    except hypothesis.errors.FlakyFailure:
        pass
    except BaseException as e:  # harness error inside check_case or the generator
        if state["best"] is None:
            acc.harness_errors.append("".join(traceback.format_exception(e))[-3000:])
    if state["best"] is not None:
        acc.failures.append(state["best"][1])
    return state["best"][1] if state["best"] else None


# --------------------------------------------------------------------------------------
# verdict, replay files, evidence

def save_replay(prop, failure):
    d = os.path.join(VERIF, "replays", prop, "found")
    if os.environ.get("MVF_NO_EVIDENCE"):
        d = os.path.join(os.environ.get("MVF_SCRATCH", "/tmp"), "found", prop)
    os.makedirs(d, exist_ok=True)
    body = dict(property=prop, rule=failure["rule"], signature=failure["signature"],
                message=failure["message"], case=failure["case"])
    path = os.path.join(d, case_hash(failure["case"]) + ".json")
    with open(path, "w") as f:
        json.dump(body, f, indent=1, sort_keys=True, default=str)
    return path


def committed_replays(prop):
    d = os.path.join(VERIF, "replays", prop)
    out = []
    if os.path.isdir(d):
        for name in sorted(os.listdir(d)):
            if name.endswith(".json"):
                out.append(os.path.join(d, name))
    return out


def finish(prop, tier, seed, level, merged, rule, assumptions, t0, extra_cov=None,
           exhaustive=None):
    """Write evidence, print verdict lines, return exit code."""
    wall = time.time() - t0
    failures = merged["failures"]
    # distinct by signature, smallest case first
    by_sig = {}
    for f in failures:
        k = f["signature"]
        if k not in by_sig or len(canon(f["case"])) < len(canon(by_sig[k]["case"])):
            by_sig[k] = f
    cov = dict(evaluations=merged["evaluations"],
               distinct_nontrivial=len(merged["nontrivial"])
               + int(merged.get("extra", {}).get("nontrivial_enumerated", 0)),
               rule=rule, samples=merged["samples"][:5],
               classes=dict(sorted(merged["classes"].items())),
               excluded_known=dict(merged["excluded"]),
               aborted_by_other_property=merged["aborted_other"],
               budget_hit=merged["budget_hit"])
    if exhaustive is not None:
        cov["exhaustive"] = bool(exhaustive)
    cov.update(merged.get("extra", {}))
    if extra_cov:
        cov.update(extra_cov)
    ev = dict(property_id=prop, tier=tier, seed=int(seed), level=level, coverage=cov,
              assumptions=list(assumptions), wall_s=round(wall, 2), violations=len(by_sig))
    evdir = os.path.join(VERIF, "evidence")
    if os.environ.get("MVF_NO_EVIDENCE"):      # sensitivity runs against scratch copies (mvf.mutate)
        evdir = os.path.join(os.environ.get("MVF_SCRATCH", "/tmp"), "evidence")
    os.makedirs(evdir, exist_ok=True)
    with open(os.path.join(evdir, prop + ".json"), "w") as f:
        json.dump(ev, f, indent=1, sort_keys=True, default=str)

    if merged["harness_errors"]:
        print(f"HARNESS-ERROR property={prop} ({len(merged['harness_errors'])} worker errors); first:")
        print(merged["harness_errors"][0])
        return 2
    for fnd in load_known():
        if fnd.get("status") == "open" and prop in fnd.get("properties", [fnd.get("property")]):
            n = merged["excluded"].get(fnd["id"], 0)
            print(f"KNOWN-FINDING: property={prop} {fnd['id']}: {fnd['what_fails']} "
                  f"(observed {n}x in this run)")
    if cov.get("build_crashes"):
        print(f"NOTE property={prop}: {cov['build_crashes']} scenario scripts crashed while being built with something "
              f"else than ScenarioError (not judged here; C11 judges connect()): {cov.get('build_crash_example')}")
    rc = 0
    for sig, f in sorted(by_sig.items()):
        path = f.get("replay_path") or save_replay(prop, f)
        print(f"VIOLATION property={prop} replay={path}")
        print(f"  rule={f['rule']} signature={sig}")
        print(f"  {f['message'][:600]}")
        rc = 1
    print(f"[{prop}] tier={tier} seed={seed} evaluations={cov['evaluations']} "
          f"nontrivial={cov['distinct_nontrivial']} excluded_known={dict(merged['excluded'])} "
          f"wall={wall:.1f}s rc={rc}" + (" BUDGET-HIT(inconclusive part)" if merged["budget_hit"] else ""))
    return rc

"""Controlled execution harness for mosaik.

* ControlSelector / VirtualLoop: the harness owns every source of progress (which simulator reply
  is delivered next, the clock).  Idle loop + nothing pending + no timer == deadlock (exact).
* ScriptedSim: gated, scripted simulators (generator functions that yield controller futures).
* In-memory duplex transport so that the real RemoteProxy/Channel/JSON codec is exercised
  deterministically.
* run_case(case) -> Result(trace, outcome, ...).  A case is JSON data; the run is a pure function of
  (repository tree, case).
"""
from __future__ import annotations

import asyncio
import copy
import json
import logging
import selectors
import warnings

import mosaik_api_v3

CTL = None          # the controller of the run in progress (module global; sims find it here)

LIVELOCK_ITERS = 6000
MAX_EVENTS = 30000

logging.getLogger("asyncio").setLevel(logging.CRITICAL)


class HarnessAbort(BaseException):
    """raised out of the selector: deadlock / livelock / runaway / shutdown_hang"""


# ======================================================================================
# controller

class Gate:
    __slots__ = ("seq", "sid", "kind", "fut", "due", "early")

    def __init__(self, seq, sid, kind, fut, due, early):
        self.seq, self.sid, self.kind, self.fut, self.due, self.early = seq, sid, kind, fut, due, early


class TimedList(list):
    """trace list that remembers the virtual clock of every append (C17)"""

    def __init__(self, ctl):
        super().__init__()
        self._ctl = ctl
        self.t = []

    def append(self, x):
        super().append(x)
        self.t.append(self._ctl.clock)


class Controller:
    def __init__(self, schedule=None, specs=None):
        s = schedule or {}
        self.policy = s.get("policy", "fifo")
        self.policy_arg = s.get("arg")
        self.picks = list(s.get("picks", []))
        self.pi = 0
        self.early = dict((int(k), v) for k, v in s.get("early", {}).items())   # gate seq -> busy ticks
        self.shutdown_release = s.get("shutdown", "release") == "release"
        self.timed = bool(s.get("timed", False))     # replies carry virtual durations (rt cases)
        self.jitter = list(s.get("jitter", []))      # extra delay added when the clock jumps to a timer
        self.ji = 0
        self.specs = specs or {}
        self.clock = 1024.0
        self.trace = TimedList(self)
        self.logs = TimedList(self)
        self.pending = []
        self.seq = 0
        self.mode = "off"          # off | run | shutdown
        self.verdict = None
        self.clock = 1024.0
        self.busy = 0
        self.iters = 0
        self.max_pending = 0
        self.nonfifo = 0
        self.releases = 0
        self.sim_tasks = []
        self.transports = []
        self.externals = []        # (due virtual time, callable) external stimuli (C17)
        self.fault_fired = None
        self.cand_counts = []
        self.shutdown_hang = False
        self.run_exc = None

    # ---- events
    def ev(self, *e):
        self.trace.append(e)
        self.busy = 0
        if len(self.trace) > MAX_EVENTS and self.mode == "run":
            self.verdict = "runaway"
            self.mode = "shutdown"
            raise HarnessAbort("runaway")

    def gate(self, sid, kind, dur=0.0):
        fut = asyncio.get_running_loop().create_future()
        if self.specs.get(sid, {}).get("transport") == "sync" or self.mode == "off":
            fut.set_result(None)          # ungated simulator (or a request outside run()): the reply is immediate
            return fut
        if self.timed:
            dur = max(dur, 2.0 ** -30)     # on a real clock even an instant answer takes time
        g = Gate(self.seq, sid, kind, fut, self.clock + dur, self.early.get(self.seq))
        self.seq += 1
        self.pending.append(g)
        self.max_pending = max(self.max_pending, len(self.pending))
        return fut

    # ---- release decisions
    def _release(self, g):
        self.pending.remove(g)
        self.releases += 1
        self.trace.append(("release", g.seq, g.sid, g.kind))
        self.busy = 0
        if not g.fut.done():
            g.fut.set_result(None)

    def tick_busy(self):
        for g in list(self.pending):
            if g.early is not None:
                g.early -= 1
                if g.early <= 0 and (not self.timed or g.due <= self.clock):
                    if g is not min(self.pending, key=lambda x: x.seq):
                        self.nonfifo += 1
                    self._release(g)

    def candidates(self):
        c = sorted(self.pending, key=lambda g: g.seq)
        if self.timed:
            c = [g for g in c if g.due <= self.clock + 1e-12]
        return c

    def release_one(self):
        if self.mode == "shutdown" and not self.shutdown_release:
            return False
        c = self.candidates()
        if not c:
            return False
        if self.mode == "run":
            self.cand_counts.append(len(c))
        if self.mode == "run" and self.pi < len(self.picks):
            g = c[self.picks[self.pi] % len(c)]
            self.pi += 1
        elif self.policy == "lifo":
            g = c[-1]
        elif self.policy == "starve":
            others = [x for x in c if x.sid != self.policy_arg]
            g = others[0] if others else c[0]
        elif self.policy == "prefer":
            pref = [x for x in c if x.kind == self.policy_arg]
            g = pref[0] if pref else c[0]
        else:
            g = c[0]
        if g is not c[0]:
            self.nonfifo += 1
        self._release(g)
        return True

    def next_due(self):
        t = [g.due for g in self.pending] if self.timed else []
        t += [e[0] for e in self.externals]
        return min(t) if t else None

    def fire_externals(self):
        fired = False
        for e in sorted([e for e in self.externals if e[0] <= self.clock + 1e-12], key=lambda e: e[0]):
            self.externals.remove(e)
            e[1]()
            fired = True
        return fired


class ControlSelector(selectors.DefaultSelector):
    ctl = None

    def select(self, timeout=None):
        ctl = self.ctl
        if ctl is None or ctl.mode == "off":
            if ctl is not None and timeout is not None and timeout > 0:
                ctl.clock += timeout           # virtual time also outside run(): no real sleeping
                return super().select(0)
            return super().select(timeout)
        ctl.iters += 1
        if timeout is not None and timeout <= 0:
            ctl.busy += 1
            if ctl.busy > LIVELOCK_ITERS:
                if ctl.mode == "run":
                    ctl.verdict = "livelock"
                    ctl.mode = "shutdown"
                    raise HarnessAbort("livelock")
                ctl.shutdown_hang = "busy"
                ctl.busy = 0
                ctl.mode = "off"
                raise HarnessAbort("shutdown_hang")
            if ctl.pending:
                ctl.tick_busy()
            return super().select(0)
        # the loop is idle
        ev = super().select(0)
        if ev:
            return ev
        if ctl.fire_externals():
            return []
        if ctl.release_one():
            return []
        due = ctl.next_due()
        if timeout is not None or due is not None:
            t_timer = ctl.clock + timeout if timeout is not None else float("inf")
            t_due = due if due is not None else float("inf")
            if t_timer <= t_due and ctl.ji < len(ctl.jitter):
                t_timer += ctl.jitter[ctl.ji]
                ctl.ji += 1
            ctl.clock = max(ctl.clock, min(t_timer, t_due))
            return []
        # nothing can ever happen again
        if ctl.mode == "run":
            ctl.verdict = "deadlock"
            ctl.mode = "shutdown"
            raise HarnessAbort("deadlock")
        ctl.shutdown_hang = "idle"
        ctl.mode = "off"
        raise HarnessAbort("shutdown_hang")


class VirtualLoop(asyncio.SelectorEventLoop):
    def __init__(self, selector, ctl):
        super().__init__(selector)
        self._ctl = ctl

    def time(self):
        return self._ctl.clock


# ======================================================================================
# in-memory transport

class MemTransport(asyncio.Transport):
    def __init__(self, loop, peer_reader, name):
        super().__init__()
        self._loop = loop
        self._peer_reader = peer_reader
        self._closing = False
        self._protocol = None
        self.peer = None
        self.name = name
        self.fail_writes = False       # fault: connection reset on next write
        self.rst_after_close = False   # fault: a write after the peer has closed is answered with RST

    def set_protocol(self, p):
        self._protocol = p

    def get_protocol(self):
        return self._protocol

    def is_closing(self):
        return self._closing

    def write(self, data):
        if self._closing:
            return
        if self.fail_writes:
            self._loop.call_soon(self._lost, ConnectionResetError("Connection reset by peer (mem)"))
            return
        if self.peer is not None and self.peer._closing:
            if self.rst_after_close:
                # the peer's kernel answers the write with RST and it arrives before we close: observed with
                # real processes that die with unread data pending (C14 real-process tier under load)
                self._loop.call_soon(self._lost, ConnectionResetError("Connection reset by peer (mem)"))
            return      # else: like the first TCP write after the peer has gone: accepted locally, never delivered
        # the moment mosaik hands a step request to a remote simulator (its inputs were collected just before):
        # recorded so that oracles need not equate it with the later moment the simulator receives the request
        if self.name.endswith(":mosaik") and b'"step"' in bytes(data) and CTL is not None and CTL.mode != "off":
            sid = getattr(getattr(self, "sim_obj", None), "sid", None)
            if sid is not None:
                CTL.trace.append(("dispatch", sid, "step"))
        self._peer_reader.feed_data(bytes(data))
        if getattr(self, "close_after_next_write", False):
            self.close_after_next_write = False
            self.close()

    def _lost(self, exc):
        if not self._closing:
            self._closing = True
            try:
                self._peer_reader.feed_eof()
            except Exception:  # noqa
                pass
            self._protocol.connection_lost(exc)

    def close(self):
        if self._closing:
            return
        self._closing = True
        try:
            self._peer_reader.feed_eof()
        except Exception:  # noqa
            pass
        self._loop.call_soon(self._protocol.connection_lost, None)

    def abort(self):
        self.close()

    def get_extra_info(self, name, default=None):
        return default

    def can_write_eof(self):
        return False


def mem_pair(loop, name):
    ra = asyncio.StreamReader(loop=loop)
    rb = asyncio.StreamReader(loop=loop)
    pa = asyncio.StreamReaderProtocol(ra, loop=loop)
    pb = asyncio.StreamReaderProtocol(rb, loop=loop)
    ta = MemTransport(loop, rb, name + ":mosaik")
    tb = MemTransport(loop, ra, name + ":sim")
    ta.peer, tb.peer = tb, ta
    ta.set_protocol(pa)
    tb.set_protocol(pb)
    pa.connection_made(ta)
    pb.connection_made(tb)
    wa = asyncio.StreamWriter(ta, pa, ra, loop)
    wb = asyncio.StreamWriter(tb, pb, rb, loop)
    return (ra, wa, ta), (rb, wb, tb)


async def start_mem(mosaik_config, sim_name, sim_config, mosaik_remote):
    from mosaik.proxies import RemoteProxy
    from mosaik_api_v3.connection import Channel
    loop = asyncio.get_running_loop()
    (ra, wa, ta), (rb, wb, tb) = mem_pair(loop, sim_name)
    sim = make_sim(sim_config["mvfmem"])
    sim._mem_transport = tb
    ta.sim_obj = sim
    ctl = CTL

    async def simside():
        ch = Channel(rb, wb)
        try:
            await mosaik_api_v3.run_simulator(ch, sim, api_compliant=getattr(sim, "api_compliant", True))
        except BaseException as e:  # noqa  (EndOfRequests, cancelled, injected faults)
            if ctl is not None:
                ctl.trace.append(("simside_end", getattr(sim, "sid", sim_name), type(e).__name__))
        finally:
            try:
                await ch.close()
            except BaseException:  # noqa
                pass

    if ctl is not None:
        ctl.sim_tasks.append(loop.create_task(simside()))
        ctl.transports.append((ta, tb))
    return RemoteProxy(Channel(ra, wa, name=sim_name), mosaik_remote)


def make_sim(kind):
    if kind == "scripted":
        return ScriptedSim()
    import importlib
    mod, cls = kind.split(":")
    return getattr(importlib.import_module(mod), cls)()


def register_starters():
    from mosaik.simmanager import StarterCollection
    sc = StarterCollection()
    if "mvfmem" not in sc:
        sc["mvfmem"] = start_mem


# ======================================================================================
# scripted, gated simulator

META = {
    "time-based": {"attrs": ["mi", "po"]},
    "event-based": {"attrs": ["ti", "eo"]},
    "hybrid": {"attrs": ["mi", "ti", "po", "eo"], "trigger": ["ti"], "non-persistent": ["eo"]},
}


class InjectedFault(Exception):
    pass


def snapshot(x):
    return json.loads(json.dumps(x))


def stable_hash(obj):
    import hashlib
    return int(hashlib.sha1(json.dumps(obj, sort_keys=True).encode()).hexdigest()[:8], 16)


class ScriptedSim(mosaik_api_v3.Simulator):
    def __init__(self):
        super().__init__({"api_version": "3.0", "type": "time-based", "models": {}})
        self.sid = None
        self.k = 0               # number of steps begun
        self.sub = 0             # sub-step index within the current integer time
        self.time = None
        self.nreq = 0            # request index (setup_done, step, get_data) for fault injection
        self.in_hash = 0
        self.ctl = CTL           # the controller of the run this simulator belongs to

    # -- lifecycle
    def init(self, sid, time_resolution=1.0, spec=None, **kw):
        self.sid = sid
        self.spec = spec or {}
        self.beh = self.spec.get("beh", {})
        typ = self.spec.get("type", "time-based")
        desc = dict(META[typ])
        desc.update(public=True, params=[])
        self.meta = {"api_version": "3.0", "type": typ, "models": {"M": desc}}
        if self.spec.get("via_children") and typ == "hybrid":
            # hierarchical entities: the connected entities are *children* (non-public model N, the usual
            # classification) of entities of the public model M, whose attributes of the same names are classified
            # the other way round (trigger <-> non-trigger, persistent <-> non-persistent)
            self.meta["models"] = {
                "M": {"public": True, "params": [], "attrs": ["mi", "ti", "po", "eo"], "trigger": ["mi"],
                      "non-persistent": ["po"]},
                "N": dict(desc, public=False)}
        if self.spec.get("set_events"):
            self.meta["set_events"] = True
        self.ctl.ev("init", sid, time_resolution)
        return self.meta

    def create(self, num, model, **params):
        if "N" in self.meta["models"]:
            return [{"eid": f"parent{i}", "type": model, "children": [{"eid": f"e{i}", "type": "N"}]}
                    for i in range(num)]
        return [{"eid": f"e{i}", "type": model} for i in range(num)]

    def _fault(self, kind_of_request):
        """fault injection: spec['fault'] = {'req': n, 'kind': 'raise'|'close'|'reset'|'exit'}"""
        f = self.spec.get("fault")
        idx = self.nreq
        self.nreq += 1
        if not f or f["req"] != idx:
            return None
        self.ctl.ev("fault", self.sid, idx, f["kind"], kind_of_request)
        self.ctl.fault_fired = (self.sid, idx, f["kind"], kind_of_request)
        return f["kind"]

    def _do_fault(self, kind):
        if kind == "raise":
            raise InjectedFault(f"injected failure in {self.sid}")
        # a simulator may fail with any exception, e.g. one from its own I/O that happens to be a connection error
        if kind == "raise_conn":
            raise ConnectionRefusedError(f"injected failure in {self.sid}: its data source refused the connection")
        if kind == "raise_eof":
            raise asyncio.IncompleteReadError(b"", 4)
        if kind == "raise_timeout":
            raise asyncio.TimeoutError(f"injected failure in {self.sid}")
        if kind == "raise_key":
            raise KeyError(f"injected failure in {self.sid}")
        tr = getattr(self, "_mem_transport", None)
        if kind == "close_after" and tr is not None:
            # the simulator process dies *between* two requests: this request is still answered, the connection is
            # closed right behind the reply
            tr.close_after_next_write = True
            return
        if kind == "close" and tr is not None:
            tr.close()
            raise asyncio.CancelledError()       # the simulator process is gone
        if kind == "reset" and tr is not None:
            tr.peer.rst_after_close = True       # mosaik's next write to the dead process is answered with RST
            tr.close()
            raise asyncio.CancelledError()
        raise InjectedFault(f"injected failure in {self.sid}")

    def setup_done(self):
        self.ctl.ev("setup_done", self.sid)
        fk = self._fault("setup_done")
        if fk:
            self._do_fault(fk)
        yield self.ctl.gate(self.sid, "setup")
        return None

    # -- behaviour
    def _cyc(self, name, k, default=0):
        seq = self.beh.get(name) or [default]
        return seq[k % len(seq)]

    def step(self, time, inputs, max_advance=None):
        k = self.k
        self.k += 1
        if time == self.time:
            self.sub += 1
        else:
            self.sub = 0
        self.time = time
        snap = snapshot(inputs)
        if self.beh.get("sensitive"):
            self.in_hash = stable_hash([self.in_hash, time, snap])
        self.ctl.ev("step_begin", self.sid, time, snap, max_advance)
        fk = self._fault("step")
        if fk:
            self._do_fault(fk)
        for act in self.beh.get("async", {}).get(str(k), []):
            yield from self._async_action(act, k)
        yield self.ctl.gate(self.sid, "step", self._cyc("dur", k, 0.0))
        nxt = self._next(time, k)
        self.ctl.ev("step_end", self.sid, nxt)
        return nxt

    def _next(self, time, k):
        bad = self.beh.get("bad_next", {}).get(str(k))
        if bad is not None:
            return eval_bad(bad, time)
        off = self._cyc("steps", k, 1)
        if self.beh.get("sensitive") and self.spec.get("type") != "time-based":
            off = (off + self.in_hash) % 3
        if self.spec.get("type") == "time-based":
            return time + max(1, off)
        return time + off if off > 0 else None

    def _async_action(self, act, k):
        kind = act[0]
        if kind == "set":
            _, dst_full, attr = act
            src_full = f"{self.sid}.e0"
            vs = self.beh.get("vstyle")
            val = shape(f"set:{self.sid}#{k}:{attr}", k, vs if vs in ("dict", "list") else None)
            payload = {src_full: {dst_full: {attr: val}}}
            self.ctl.ev("async_set", self.sid, payload)
            try:
                yield self.mosaik.set_data(payload)
                self.ctl.ev("async_set_ok", self.sid)
            except Exception as e:  # noqa
                self.ctl.ev("async_err", self.sid, "set_data", type(e).__name__, str(e)[:200],
                       getattr(e, "remote_type", None), [k.__name__ for k in type(e).__mro__])
                if act[-1] != "catch" and self.beh.get("reraise", True):
                    raise
        elif kind == "get":
            _, src_full, attr = act
            self.ctl.ev("async_get", self.sid, {src_full: [attr]})
            try:
                res = yield self.mosaik.get_data({src_full: [attr]})
                self.ctl.ev("async_get_ok", self.sid, snapshot(res))
            except Exception as e:  # noqa
                self.ctl.ev("async_err", self.sid, "get_data", type(e).__name__, str(e)[:200],
                       getattr(e, "remote_type", None), [k.__name__ for k in type(e).__mro__])
                if self.beh.get("reraise", True):
                    raise
        elif kind == "event":
            _, t = act
            self.ctl.ev("set_event", self.sid, t)
            try:
                yield self.mosaik.set_event(t)
                self.ctl.ev("set_event_ok", self.sid, t)
            except Exception as e:  # noqa
                self.ctl.ev("async_err", self.sid, "set_event", type(e).__name__, str(e)[:200],
                       getattr(e, "remote_type", None))
                if self.beh.get("reraise", True):
                    raise

    def get_data(self, outputs):
        k = self.k - 1
        self.ctl.ev("get_begin", self.sid, snapshot(outputs))
        fk = self._fault("get_data")
        if fk:
            self._do_fault(fk)
        yield self.ctl.gate(self.sid, "get", self._cyc("gdur", k, 0.0))
        data = {}
        has_po = False
        emit = self._cyc("emit", k, 3)
        if self.beh.get("sensitive"):
            emit = (emit + self.in_hash // 3) % 4
        budget = self.beh.get("budget", 1)
        for eid, attrs in outputs.items():
            ei = int(eid[1:]) if eid[1:].isdigit() else 0
            for a in attrs:
                if a == "po":
                    has_po = True
                    if not (self._cyc("omit_po", k, 0) >> ei & 1):
                        # const_po: a measurement that does not change (the simulator may then hand out the very
                        # same reply object again, see below)
                        data.setdefault(eid, {})[a] = (f"{self.sid}.{eid}.po" if self.beh.get("const_po")
                                                       else shape(f"{self.sid}.{eid}.po#{k}", k, self.beh.get("vstyle")))
                elif a == "eo":
                    if (emit >> ei & 1) and self.sub < budget:
                        # events keep a unique token inside (the monitor tells event values apart by equality)
                        vs = self.beh.get("vstyle")
                        data.setdefault(eid, {})[a] = shape(f"{self.sid}.{eid}.eo#{k}", k,
                                                            vs if vs in ("dict", "list") else None)
        fut = self._cyc("future", k, 0)
        bad = self.beh.get("bad_time", {}).get(str(k))
        if bad is not None:
            data["time"] = eval_bad(bad, self.time)
        elif fut and not has_po:
            data["time"] = self.time + fut
        self.ctl.ev("get_end", self.sid, snapshot(data))
        if self.beh.get("const_po"):
            # an in-process simulator whose outputs did not change returns the identical dict object again
            if getattr(self, "_last_reply", None) == data:
                return self._last_reply
            self._last_reply = data
        return data

    def finalize(self):
        if self.ctl is not None and self.ctl.mode != "off":
            self.ctl.trace.append(("finalize", self.sid))
        f = (self.spec or {}).get("fault") if hasattr(self, "spec") else None
        if f and f.get("req") == "finalize":
            # the simulator fails at the very last point of a run: in its finalize()
            if self.ctl is not None:
                self.ctl.ev("fault", self.sid, "finalize", f["kind"], "finalize")
                self.ctl.fault_fired = (self.sid, "finalize", f["kind"], "finalize")
            raise InjectedFault(f"injected failure in finalize() of {self.sid}")


class ScriptedSimSync(ScriptedSim):
    """The same scripted behaviours with plain (non-generator) methods: replies are immediate, exactly like
    the in-process simulators of the repository's own tests (no gating, no asynchronous requests)."""

    def setup_done(self):
        self.ctl.ev("setup_done", self.sid)
        fk = self._fault("setup_done")
        if fk:
            self._do_fault(fk)
        return None

    def step(self, time, inputs, max_advance=None):
        k = self.k
        self.k += 1
        if time == self.time:
            self.sub += 1
        else:
            self.sub = 0
        self.time = time
        snap = snapshot(inputs)
        if self.beh.get("sensitive"):
            self.in_hash = stable_hash([self.in_hash, time, snap])
        self.ctl.ev("step_begin", self.sid, time, snap, max_advance)
        fk = self._fault("step")
        if fk:
            self._do_fault(fk)
        nxt = self._next(time, k)
        self.ctl.ev("step_end", self.sid, nxt)
        return nxt

    def get_data(self, outputs):
        gen = ScriptedSim.get_data(self, outputs)
        try:
            next(gen)                 # runs up to the gate; the gate's future is simply dropped
            gen.send(None)
        except StopIteration as stop:
            return stop.value
        raise RuntimeError("unreachable")


FALSY = [None, 0, "", False, [], {}, 0.0]


def shape(tok, k, style):
    """value shapes (`beh['vstyle']`): every JSON value is valid data for mosaik, not only unique strings.
    'dict'  - JSON objects whose key sets differ from step to step (a later one lacks a key of an earlier one)
    'falsy' - every other value is one of None / 0 / "" / False / [] / {} / 0.0, the rest are unique tokens
    'small' - a tiny domain with repeats (the same number in consecutive steps, returns to old values)
    'list'  - [token, k]"""
    if not style:
        return tok
    if style == "dict":
        d = {"tok": tok, ("p" if k % 2 == 0 else "q"): k}
        if k % 3 == 0:
            d["r"] = {"nested": k}
        return d
    if style == "falsy":
        return FALSY[(k // 2) % len(FALSY)] if k % 2 else tok
    if style == "small":
        return (k // 2) % 3
    if style == "list":
        return [tok, k]
    raise ValueError(style)


def eval_bad(bad, time):
    """malformed reply values for C13: ['rel', d] -> time+d ; ['abs', v] -> v ; ['float', d] ; ['str', d] ;
    ['list', d] ; ['none'] ; ['bool', b]"""
    kind = bad[0]
    if kind == "rel":
        return time + bad[1]
    if kind == "abs":
        return bad[1]
    if kind == "float":
        return float(time + bad[1]) + 0.5 * bad[2] if len(bad) > 2 else float(time + bad[1])
    if kind == "str":
        return str(time + bad[1])
    if kind == "list":
        return [time + bad[1]]
    if kind == "none":
        return None
    if kind == "bool":
        return bool(bad[1])
    raise ValueError(bad)


# ======================================================================================
# building and running a case

class Result:
    def __init__(self):
        self.outcome = None          # 'returned' | 'exception' | 'deadlock' | 'livelock' | 'runaway' | 'rejected'
        self.exc_type = None
        self.exc_mro = []           # class names of the exception and its base classes
        self.exc_msg = None
        self.exc_tb = None
        self.trace = []
        self.logs = []
        self.loop_closed = None
        self.leftover_tasks = 0
        self.exec_nodes = None
        self.stats = {}
        self.build_error = None
        self.shutdown_hang = False
        self.virtual_elapsed = 0.0
        self.open_transports = 0
        self.held = []
        self.leftover_names = []

    def is_a(self, name):
        """the exception that came out of run() is an instance of the class called `name` (a statement that
        fixes an exception type is met by a subclass, too)"""
        return name in (self.exc_mro or [self.exc_type])

    def steps(self, sid=None):
        return [e for e in self.trace if e[0] == "step_begin" and (sid is None or e[1] == sid)]

    def per_sim_sequences(self):
        out = {}
        for e in self.trace:
            if e[0] == "step_begin":
                out.setdefault(e[1], []).append([e[2], e[3]])
        return out


def walk_tree(tree, path=()):
    """yield (sid, group_path) in start order; group ids are positional paths"""
    gi = 0
    for child in tree:
        if isinstance(child, str):
            yield child, path
        else:
            yield from walk_tree(child, path + (gi,))
            gi += 1


def sim_groups(scn):
    return {sid: tuple(p) for sid, p in walk_tree(scn["tree"])}


def init_token(c):
    return f"init:{c['src']}.e{c['se']}.{c['sa']}>{c['dst']}.e{c['de']}.{c['da']}"


def run_case(case, keep_world=False):
    """Execute one case against the real mosaik code under the controlled loop."""
    global CTL
    import mosaik
    from mosaik import scheduler as msched
    from loguru import logger

    scn = case["scenario"]
    specs = {s["sid"]: s for s in scn["sims"]}
    ctl = Controller(case.get("schedule"), specs)
    for s in scn["sims"]:
        f = [x for x in case.get("faults", []) if x["sim"] == s["sid"]]
        if f:
            s = specs[s["sid"]] = dict(s, fault={"req": f[0]["req"], "kind": f[0]["kind"]})
    res = Result()
    logger.remove()
    logger.add(lambda m: ctl.logs.append((m.record["level"].name, m.record["message"])), level="WARNING",
               format="{message}")
    warnings.simplefilter("ignore")
    register_starters()
    sel = ControlSelector()
    sel.ctl = ctl
    loop = VirtualLoop(sel, ctl)
    CTL = ctl
    wopt = scn.get("world", {})
    ropt = scn.get("run", {})
    sim_config = {
        "Local": {"python": "mvf.harness:ScriptedSim"},
        "Sync": {"python": "mvf.harness:ScriptedSimSync"},
        "Mem": {"mvfmem": "scripted"},
    }
    orig_pc = msched.perf_counter
    world = None
    t_start = ctl.clock
    try:
        def virtual_perf_counter():
            # a real clock never stands still: every reading in a real-time case is a little later
            if ctl.timed:
                ctl.clock += 2.0 ** -30
            return ctl.clock
        msched.perf_counter = virtual_perf_counter
        # options that have their documented default value are *not* passed, so the defaults themselves are
        # exercised (cache=True, debug=False, max_loop_iterations=100, time_resolution=1.0)
        wkw = {}
        if wopt.get("debug", False):
            wkw["debug"] = True
        if not wopt.get("cache", True):
            wkw["cache"] = False
        if wopt.get("max_loop_iterations", 100) != 100:
            wkw["max_loop_iterations"] = wopt["max_loop_iterations"]
        if wopt.get("time_resolution", 1.0) != 1.0:
            wkw["time_resolution"] = wopt["time_resolution"]
        world = mosaik.World(sim_config, skip_greetings=True, asyncio_loop=loop,
                             mosaik_config={"stop_timeout": 1, "start_timeout": 5}, **wkw)
        if world.loop is not loop:
            # the harness observes and steers the run through World's documented asyncio_loop parameter
            from mvf.core import HarnessError
            raise HarnessError("World(asyncio_loop=...) did not adopt the given event loop: the harness cannot run")
        ents = {}

        def build(tree):
            for child in tree:
                if isinstance(child, str):
                    sp = specs[child]
                    name = {"mem": "Mem", "sync": "Sync"}.get(sp.get("transport"), "Local")
                    pspec = {k: v for k, v in sp.items() if k not in ("transport",)}
                    fac = world.start(name, sim_id=child, spec=pspec)
                    ents[child] = fac.M.create(sp.get("n_ent", 1))
                    if sp.get("via_children") and sp.get("type") == "hybrid":
                        ents[child] = [e.children[0] for e in ents[child]]
                else:
                    with world.group():
                        build(child)
        script = scn.get("script", {})
        done_conns = set()

        def connect_one(i, c):
            kw = {}
            if c.get("shift"):
                kw["time_shifted"] = c["shift"] if c["shift"] != 1 else True
            if c.get("weak"):
                kw["weak"] = True
            if c.get("init"):
                kw["initial_data"] = {c["sa"]: init_token(c)}
            if c.get("async"):
                kw["async_requests"] = True      # the flag on the same call as the data-flow
            world.connect(ents[c["src"]][c["se"]], ents[c["dst"]][c["de"]], (c["sa"], c["da"]), **kw)
            done_conns.add(i)

        if script.get("connect_early"):
            # scenario scripts may connect as soon as both ends exist, i.e. inside still open `with world.group()`
            # blocks (nothing in the documentation asks for connecting after the blocks)
            _build = build

            def build(tree):     # noqa: F811
                for child in tree:
                    if isinstance(child, str):
                        _build([child])
                        for i, c in enumerate(scn.get("conns", [])):
                            if i not in done_conns and c["src"] in ents and c["dst"] in ents:
                                connect_one(i, c)
                    else:
                        with world.group():
                            build(child)
        try:
            build(scn["tree"])
            for i, c in enumerate(scn.get("conns", [])):
                if i in done_conns:
                    continue
                kw = {}
                if c.get("shift"):
                    kw["time_shifted"] = c["shift"] if c["shift"] != 1 else True
                if c.get("weak"):
                    kw["weak"] = True
                if c.get("init"):
                    kw["initial_data"] = {c["sa"]: init_token(c)}
                if c.get("async"):
                    kw["async_requests"] = True      # the flag on the same call as the data-flow
                world.connect(ents[c["src"]][c["se"]], ents[c["dst"]][c["de"]], (c["sa"], c["da"]), **kw)
            same_call = {(c["src"], c["dst"]) for c in scn.get("conns", []) if c.get("async")}
            for a in scn.get("async", []):
                if (a[0], a[1]) not in same_call:
                    world.connect(ents[a[0]][0], ents[a[1]][0], async_requests=True)
            for sid, t in scn.get("initial_events", {}).items():
                world.set_initial_event(sid, t)
            if script.get("pre_get_data") and not case.get("faults"):
                # documented scenario-script usage: query entity data with World.get_data() before the run
                want = {}
                # (measurements only: an event output has no value before the first step)
                omit = {s_["sid"] for s_ in scn["sims"] if any(s_.get("beh", {}).get("omit_po", []))}
                for c in scn.get("conns", []):
                    if c["sa"] == "po" and c["src"] not in omit:
                        want.setdefault(ents[c["src"]][c["se"]], set()).add(c["sa"])
                if want:
                    ctl.trace.append(("pre_get_data", snapshot(
                        {e.full_id: v for e, v in world.get_data(list(want), "po").items()})))
        except Exception as e:  # noqa
            res.outcome = "build_error"
            res.exc_type = type(e).__name__
            res.exc_mro = [k.__name__ for k in type(e).__mro__]
            res.exc_msg = str(e)
            return res

        orig_shutdown = world.shutdown

        def shutdown_wrapper():
            import sys
            if ctl.mode == "run":
                ctl.mode = "shutdown"
            ctl.run_exc = sys.exc_info()[1]
            ctl.trace.append(("shutdown_begin",))
            return orig_shutdown()
        world.shutdown = shutdown_wrapper
        for ext in case.get("externals", []):
            install_external(ctl, world, ext)
        ctl.mode = "run"
        t_start = ctl.clock
        try:
            # the same for run(): rt_factor=None, rt_strict=False, lazy_stepping=True are the documented defaults
            rkw = {}
            if ropt.get("rt_factor") is not None:
                rkw["rt_factor"] = ropt["rt_factor"]
            if ropt.get("rt_strict", False):
                rkw["rt_strict"] = True
            if not ropt.get("lazy_stepping", True):
                rkw["lazy_stepping"] = False
            pp = ropt.get("print_progress", False)
            if pp is False:
                world.run(until=scn["until"], print_progress=False, **rkw)
            else:
                # the documented progress displays (True = one bar, the default; 'individual' = one bar per
                # simulator) write to stderr: swallowed here
                import contextlib
                import io
                with contextlib.redirect_stderr(io.StringIO()):
                    if pp is True and ropt.get("print_progress_default"):
                        world.run(until=scn["until"], **rkw)
                    else:
                        world.run(until=scn["until"], print_progress=pp, **rkw)
            res.outcome = "returned"
        except HarnessAbort as e:
            res.outcome = str(e)
            if str(e) == "shutdown_hang":
                # the verdict of run() itself was reached before shutdown began
                oe = getattr(ctl, "run_exc", None)
                if isinstance(oe, HarnessAbort):
                    res.outcome = str(oe)
                elif oe is not None:
                    res.outcome = "exception"
                    res.exc_type = type(oe).__name__
                    res.exc_mro = [k.__name__ for k in type(oe).__mro__]
                    res.exc_msg = str(oe)
                    res.exc_tb = ""
                else:
                    res.outcome = "returned"
        except BaseException as e:  # noqa
            import traceback
            res.outcome = "exception"
            res.exc_type = type(e).__name__
            res.exc_mro = [k.__name__ for k in type(e).__mro__]
            res.exc_msg = str(e)
            res.exc_tb = "".join(traceback.format_exception(e))[-1500:]
            if res.is_a("ScenarioError") and not any(x[0] in ("setup_done", "step_begin")
                                                             for x in ctl.trace):
                res.outcome = "rejected"
        res.shutdown_hang = getattr(ctl, "shutdown_hang", False)
        res.virtual_elapsed = ctl.clock - t_start
        res.loop_closed = loop.is_closed()
        if wopt.get("debug") and hasattr(world, "execution_graph"):
            try:
                res.exec_nodes = sorted([n[0], list(n[1].tiers)] for n in world.execution_graph.nodes)
            except Exception:  # noqa   (another node format: the cross-check with the debug graph is skipped)
                res.exec_nodes = None
        try:
            left = [t for t in asyncio.all_tasks(loop) if not t.done() and t not in ctl.sim_tasks]
            res.leftover_tasks = len(left)
            res.leftover_names = sorted(t.get_name() for t in left)
        except Exception:  # noqa
            res.leftover_tasks = -1
        res.open_transports = sum(1 for ta, tb in ctl.transports if not ta.is_closing())
        res.held = sorted({g.sid for g in ctl.pending})
        return res
    finally:
        ctl.mode = "off"
        res.trace = ctl.trace
        res.logs = ctl.logs
        res.stats = dict(max_pending=ctl.max_pending, nonfifo=ctl.nonfifo, releases=ctl.releases,
                         iters=ctl.iters, picks_used=ctl.pi, cand_counts=ctl.cand_counts)
        res.fault_fired = ctl.fault_fired
        res.jitter_used = ctl.ji
        msched.perf_counter = orig_pc
        try:
            import mosaik._debug as dbg
            dbg.disable()
        except Exception:  # noqa
            pass
        # teardown: nothing may outlive the case
        try:
            if not loop.is_closed():
                for g in ctl.pending:
                    if not g.fut.done():
                        g.fut.cancel()
                for _ in range(5):
                    tasks = [t for t in asyncio.all_tasks(loop) if not t.done()]
                    if not tasks:
                        break
                    for t in tasks:
                        t.cancel()
                    try:
                        loop.run_until_complete(asyncio.gather(*tasks, return_exceptions=True))
                    except BaseException:  # noqa
                        pass
                loop.close()
        except BaseException:  # noqa
            pass
        CTL = None
        if keep_world:
            res.world = world


def install_external(ctl, world, ext):
    """external stimulus at a virtual instant: {'at': seconds after start, 'sim': sid, 'event': t}"""
    def fire():
        sid, t = ext["sim"], ext["event"]
        ctl.trace.append(("ext_set_event", sid, t, ctl.clock))
        remote = world.sims[sid]._proxy
        # the documented route: the simulator calls mosaik.set_event (MosaikRemote of that simulator)
        mr = getattr(getattr(remote, "sim", None), "mosaik", None)
        if mr is None:
            base = remote
            while hasattr(base, "_out"):
                base = base._out
            mr = getattr(base, "_mosaik_remote", None) or getattr(getattr(base, "sim", None), "mosaik", None)

        async def call():
            try:
                # set_event does not yield: a warning emitted while it runs (loguru record of level WARNING or a
                # Python warning) is the warning about this event, whatever its wording
                import warnings as _w
                n0 = len(ctl.logs)
                with _w.catch_warnings(record=True) as wl:
                    _w.simplefilter("always")
                    await mr.set_event(t)
                ctl.trace.append(("ext_set_event_ok", sid, t, len(ctl.logs) > n0 or bool(wl)))
            except Exception as e:  # noqa
                ctl.trace.append(("ext_set_event_err", sid, t, type(e).__name__, str(e)[:200]))
        world.loop.create_task(call())
    ctl.externals.append((ctl.clock + ext["at"], fire))

"""A minimal in-process simulator whose meta is given by the scenario (for C11, C12, C15, C18).

It records every request it receives in the module-level LOG (list of tuples) and steps with
step size 1.  No gating: used where the schedule does not matter.
"""
import copy

import mosaik_api_v3

LOG = []


class MetaSim(mosaik_api_v3.Simulator):
    def __init__(self):
        super().__init__({"api_version": "3.0", "type": "time-based", "models": {}})
        self.sid = None
        self.eids = []
        self.steps = 0

    def init(self, sid, time_resolution=1.0, meta=None, step_size=1, **kw):
        self.sid = sid
        self.step_size = step_size
        if meta is not None:
            self.meta = copy.deepcopy(meta)
        LOG.append((sid, "init", time_resolution))
        return self.meta

    def create(self, num, model, **params):
        out = []
        for _ in range(num):
            eid = f"{model}{len(self.eids)}"
            self.eids.append(eid)
            ent = {"eid": eid, "type": model}
            # hierarchical entities: meta["mvf_children"] = list of model names of the children of every
            # top-level entity (mixed types allowed)
            kids = []
            for j, cm in enumerate(self.meta.get("mvf_children", [])):
                ceid = f"{eid}.{cm}{j}"
                self.eids.append(ceid)
                kids.append({"eid": ceid, "type": cm})
            if kids:
                ent["children"] = kids
            out.append(ent)
        return out

    def setup_done(self):
        LOG.append((self.sid, "setup_done"))

    def step(self, time, inputs, max_advance):
        LOG.append((self.sid, "step", time, copy.deepcopy(inputs), max_advance))
        self.steps += 1
        self.time = time
        if self.meta.get("mvf_no_self_step"):
            return None           # event-based / hybrid only: stepped again only when triggered
        return time + self.step_size

    def get_data(self, outputs):
        LOG.append((self.sid, "get_data", copy.deepcopy(outputs)))
        return {eid: {a: f"{self.sid}.{eid}.{a}#{self.steps - 1}" for a in attrs}
                for eid, attrs in outputs.items()}

    def finalize(self):
        LOG.append((self.sid, "finalize"))


SHARED_META = {"api_version": "3.0", "type": "time-based", "models": {}}


class SharedMetaSim(MetaSim):
    """The most common style of in-process simulators: one module-level META handed to Simulator.__init__ (which
    copies the top level only, so all instances share the model descriptions) and a simulator type chosen by a
    sim param.  The test fills SHARED_META["models"] before the first start."""

    def __init__(self):
        mosaik_api_v3.Simulator.__init__(self, SHARED_META)
        self.sid = None
        self.eids = []
        self.steps = 0

    def init(self, sid, time_resolution=1.0, sim_type="time-based", step_size=1, **kw):
        self.sid = sid
        self.step_size = step_size
        self.meta["type"] = sim_type
        LOG.append((sid, "init", time_resolution))
        return self.meta


SIM_CONFIG = {"Meta": {"python": "mvf.simple_sim:MetaSim"}, "Shared": {"python": "mvf.simple_sim:SharedMetaSim"}}


def quiet_world(sim_config=None, **kw):
    """World without greeting, progress bars and log noise, on a guarded loop: the harness selector turns an
    idle loop with nothing to wait for (a deadlocked run) into HarnessAbort instead of blocking forever, and
    the virtual clock makes stop() time-outs free."""
    import mosaik
    from loguru import logger
    from mvf import harness
    logger.remove()
    ctl = harness.Controller({})
    sel = harness.ControlSelector()
    sel.ctl = ctl
    loop = harness.VirtualLoop(sel, ctl)
    w = mosaik.World(sim_config or SIM_CONFIG, skip_greetings=True, asyncio_loop=loop, **kw)
    if w.loop is not loop:
        from mvf.core import HarnessError
        raise HarnessError("World(asyncio_loop=...) did not adopt the given event loop: the harness cannot run")
    w._mvf_ctl = ctl
    return w


def guarded_run(w, **kw):
    """world.run under the guarded loop; a deadlock / busy spin raises harness.HarnessAbort"""
    ctl = w._mvf_ctl
    orig_shutdown = w.shutdown

    def shutdown_wrapper():
        if ctl.mode == "run":
            ctl.mode = "shutdown"
        return orig_shutdown()
    w.shutdown = shutdown_wrapper
    ctl.mode = "run"
    try:
        return w.run(**kw)
    finally:
        ctl.mode = "off"


def close_world(w):
    try:
        if not w.loop.is_closed():
            w.shutdown()
    except BaseException:  # noqa
        pass
    try:
        if not w.loop.is_closed():
            import asyncio
            for t in asyncio.all_tasks(w.loop):
                t.cancel()
            w.loop.close()
    except BaseException:  # noqa
        pass

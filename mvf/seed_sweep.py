"""Run the checks against every confirmed seeded change: a scratch worktree of /repo HEAD gets
seeded/<id>/patch.diff applied and the quick check of the property it breaks (or all checks) is run against it
(MVF_REPO).  Not a registered check.      python -m mvf.seed_sweep [--all-checks]  -> /verif/seeded/sweep.json

The same can be done in place, as the brief describes:
    git -C /repo apply /verif/seeded/<id>/patch.diff; ./check <ID> quick; git -C /repo checkout -- .
"""
import json
import os
import shutil
import subprocess
import sys
import tempfile

VERIF = os.path.dirname(os.path.dirname(os.path.abspath(__file__)))
REPO = os.environ.get("VP_RUN_REPO") or os.environ.get("MVF_REPO") or "/repo"


def main():
    allc = "--all-checks" in sys.argv
    # --after <seed id>: only the seeds that sort after it; results are merged into the existing sweep.json
    after = sys.argv[sys.argv.index("--after") + 1] if "--after" in sys.argv else None
    out = {}
    if after and os.path.exists(os.path.join(VERIF, "seeded", "sweep.json")):
        out = json.load(open(os.path.join(VERIF, "seeded", "sweep.json")))
    props_all = [c["property_id"] for c in json.load(open(os.path.join(VERIF, "MANIFEST.json")))["checks"]]
    for d in sorted(os.listdir(os.path.join(VERIF, "seeded"))):
        patch = os.path.join(VERIF, "seeded", d, "patch.diff")
        if not os.path.exists(patch) or (after and d <= after):
            continue
        meta = json.load(open(os.path.join(VERIF, "seeded", d, "meta.json")))
        target = meta["breaks_property"]
        props = props_all if allc else [target] + [p for p in meta.get("also_check", []) if p != target]
        wt = tempfile.mkdtemp(prefix="mvf_seed_")
        os.rmdir(wt)
        try:
            subprocess.run(["git", "-C", REPO, "worktree", "add", "-q", "--detach", wt, "HEAD"], check=True)
            if subprocess.run(["git", "-C", wt, "apply", patch]).returncode != 0:
                out[d] = {"breaks": target, "checks": {}, "error": "patch does not apply to HEAD"}
                print(d, "PATCH DOES NOT APPLY", flush=True)
                continue
            row = {}
            for p in props:
                env = dict(os.environ, MVF_NO_EVIDENCE="1", MVF_REPO=wt)
                r = subprocess.run([os.path.join(VERIF, "check"), p, "quick"], env=env, capture_output=True, text=True,
                                   timeout=1500)
                rules = sorted({l.split("rule=")[1].split()[0] for l in r.stdout.splitlines() if "rule=" in l})
                row[p] = {"rc": r.returncode, "rules": rules[:5]}
            out[d] = {"breaks": target, "checks": row}
            print(d, {k: (v["rc"], v["rules"][:3]) for k, v in row.items() if v["rc"] != 0 or k == target}, flush=True)
        finally:
            subprocess.run(["git", "-C", REPO, "worktree", "remove", "--force", wt], check=False)
            shutil.rmtree(wt, ignore_errors=True)
    json.dump(out, open(os.path.join(VERIF, "seeded", "sweep.json"), "w"), indent=1)


if __name__ == "__main__":
    main()

"""Shared driver for the scheduler properties (C01-C05, C07, C09, C10, C16): generate (scenario,
schedule) cases, run them under the controlled loop, hand the result to the property's analyser."""
from __future__ import annotations

import copy

from mvf import core, gen, harness
from mvf.core import Failure


def raised_in_delay_comparison(tb_text):
    """the innermost frames of the traceback are a comparison method of mosaik/tiered_time.py"""
    lines = [l for l in tb_text.splitlines() if l.strip().startswith("File ")]
    if not lines:
        return False
    last = lines[-1]
    return "tiered_time.py" in last and any(f"in __{op}__" in last for op in ("lt", "le", "gt", "ge"))


def exc_class(res):
    """normalised class of an exception that came out of run()"""
    m = (res.exc_msg or "")
    t = res.exc_type or ""
    if "cannot progress backwards" in m:
        return "AssertionError:progress_backwards"
    if "incomparable" in m or raised_in_delay_comparison(getattr(res, "exc_tb", "") or ""):
        # the comparison of two delays failed (whatever the wording or the exception class)
        return "AssertionError:incomparable"
    if "already progressed" in m:
        return "SimulationError:already_progressed"
    if "has performed a sub-step more than" in m:
        return "SimulationError:max_loop_iterations"
    if "closed its connection" in m:
        return "SimulationError:connection_closed"
    return t


def has_cycle(scn):
    import networkx as nx
    g = nx.DiGraph()
    for c in scn.get("conns", []):
        g.add_edge(c["src"], c["dst"])
    try:
        nx.find_cycle(g)
        return True
    except nx.NetworkXNoCycle:
        return False


def scenario_classes(scn):
    cls = []
    groups = harness.sim_groups(scn)
    conns = scn.get("conns", [])
    if any(c.get("weak") for c in conns):
        cls.append("weak")
    if any(c.get("shift", 0) >= 2 for c in conns):
        cls.append("shift>=2")
    if any(c.get("shift", 0) for c in conns):
        cls.append("shifted")
    if any(groups[c["src"]] != groups[c["dst"]] for c in conns):
        cls.append("group_crossing")
    if any(len(p) >= 2 for p in groups.values()):
        cls.append("nested_group")
    if any(s.get("transport") == "mem" for s in scn["sims"]):
        cls.append("remote")
    if any(s.get("transport") == "sync" for s in scn["sims"]):
        cls.append("ungated_sim")
    if any(s["beh"].get("future") for s in scn["sims"]):
        cls.append("future_time")
    cls.append("cache_on" if scn.get("world", {}).get("cache", True) else "cache_off")
    cls.append("lazy_on" if scn.get("run", {}).get("lazy_stepping", True) else "lazy_off")
    if scn.get("world", {}).get("debug"):
        cls.append("debug")
    if has_cycle(scn):
        cls.append("cycle")
    kinds = {}
    for c in conns:
        k = "weak" if c.get("weak") else ("shift" if c.get("shift") else "plain")
        kinds.setdefault((c["src"], c["dst"]), set()).add(k)
    if any(len(v) > 1 for v in kinds.values()):
        cls.append("two_kinds_one_pair")
    return cls


def run_classes(res):
    cls = ["outcome." + str(res.outcome)]
    if res.stats.get("max_pending", 0) >= 2:
        cls.append("concurrent>=2")
    if res.stats.get("nonfifo", 0) > 0:
        cls.append("nonfifo")
    return cls


def abbreviate(case):
    """short human-readable form of a case for evidence samples"""
    scn = case["scenario"]
    return {
        "tree": scn["tree"],
        "sims": {s["sid"]: [s["type"], s.get("transport", "local"), s["beh"]] for s in scn["sims"]},
        "conns": [f"{c['src']}.e{c['se']}.{c['sa']}->{c['dst']}.e{c['de']}.{c['da']}"
                  + (f" shift{c['shift']}" if c.get("shift") else "") + (" weak" if c.get("weak") else "")
                  + (" init" if c.get("init") else "") for c in scn.get("conns", [])],
        "initial_events": scn.get("initial_events", {}), "until": scn["until"],
        "world": scn.get("world", {}), "run": scn.get("run", {}), "schedule": case.get("schedule", {}),
        **{k: case[k] for k in ("faults", "fault13", "negative", "externals", "async") if case.get(k)},
        **({"async": scn["async"]} if scn.get("async") else {}),
    }


def make_check_case(analyse, runner=None):
    """analyse(case, res) -> (failures, nontrivial, extra_classes)"""
    def check_case(case, acc, holder=None):
        res = (runner or harness.run_case)(case)
        if holder is not None:
            holder["res"] = res
        fails, nontrivial, extra = analyse(case, res)
        if res.outcome == "build_error" and not res.is_a("ScenarioError"):
            # the scenario script itself crashed with something else than mosaik's ScenarioError: not judged by the
            # scheduler properties (C11 judges connect()), but it must stay visible - it may be a bug of the harness
            extra = list(extra) + [f"build_crash.{res.exc_type}"]
            acc.extra["build_crashes"] = acc.extra.get("build_crashes", 0) + 1
            acc.extra.setdefault("build_crash_example", f"{res.exc_type}: {(res.exc_msg or '')[:200]}")
        acc.record(case, nontrivial, scenario_classes(case["scenario"]) + run_classes(res) + list(extra),
                   sample=abbreviate(case))
        for f in fails:
            f["case"] = case
        return acc.triage(fails)
    return check_case


def std_shards(prop, tier, seed, n=None):
    n = n or core.NPROC
    return [dict(prop=prop, tier=tier, seed=seed, shard=i, nshards=n) for i in range(n)]


def run_long(check_case, acc, shard, nshards, offset=5):
    """the long runs of gen.long_cases(), spread over the shards"""
    from mvf import gen
    for i, (name, case) in enumerate(gen.long_cases()):
        if (i + offset) % nshards != shard or acc.out_of_time():
            continue
        import copy
        for f in check_case(copy.deepcopy(case), acc):
            if len(acc.failures) < 20:
                acc.failures.append(f)


def enumerate_schedules(scn, check_case, acc, max_dev, base_extra=None, max_runs=3000):
    """Delay-bounded exhaustive enumeration: every pick sequence that deviates from FIFO in at most
    max_dev decision points (decision point = idle point with >= 2 pending replies; every alternative
    candidate is tried).  Returns (runs, complete)."""
    runs = 0
    complete = True
    # first the extreme policies, which a bounded number of deviations from FIFO does not reach: LIFO, every
    # simulator starved in turn (its replies are released only when nothing else is pending), steps / get_data first
    sweeps = [{"policy": "lifo"}, {"policy": "prefer", "arg": "step"}, {"policy": "prefer", "arg": "get"}] + \
             [{"policy": "starve", "arg": sm["sid"]} for sm in scn["sims"]]
    for sched in sweeps:
        if acc.out_of_time():
            complete = False
            break
        case = {"scenario": scn, "schedule": sched}
        if base_extra:
            case.update(copy.deepcopy(base_extra))
        for f in check_case(case, acc, {}):
            if len(acc.failures) < 20:
                acc.failures.append(f)
        runs += 1
    stack = [()]           # tuples of (position, pick), positions strictly increasing
    while stack:
        devs = stack.pop()
        if runs >= max_runs or acc.out_of_time():
            complete = False
            break
        picks = []
        for pos, pk in devs:
            picks += [0] * (pos - len(picks)) + [pk]
        case = {"scenario": scn, "schedule": {"picks": picks}}
        if base_extra:
            case.update(copy.deepcopy(base_extra))
        holder = {}
        fails = check_case(case, acc, holder)
        runs += 1
        for f in fails:
            if len(acc.failures) < 20:
                acc.failures.append(f)
        if len(devs) < max_dev:
            counts = holder["res"].stats.get("cand_counts", [])
            start = devs[-1][0] + 1 if devs else 0
            for pos in range(start, len(counts)):
                for pk in range(1, counts[pos]):
                    stack.append(devs + ((pos, pk),))
    return runs, complete


# ------------------------------------------------------------------------------------------
# monitor-based analysers

def monitor_failures(case, res, prefix, sig_fn=None):
    """run the history monitor over the trace; return (failures of this property, monitor, n_other)"""
    from mvf import monitor
    mon = monitor.Monitor(case["scenario"])
    viol = mon.run(res)
    fails, other = [], 0
    for v in viol:
        if v["rule"].startswith(prefix + "."):
            sig = sig_fn(v, case, res) if sig_fn else v["rule"]
            fails.append(Failure(v["rule"], sig, v["msg"]))
        else:
            other += 1
    return fails, mon, other


def aborted_by_other(res):
    """the run was cut short by a failure that belongs to another property (C05 / C06)"""
    return res.outcome in ("exception", "deadlock", "livelock", "runaway", "build_error")

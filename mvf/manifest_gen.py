"""Regenerates MANIFEST.json from the table below (python -m mvf.manifest_gen)."""
import json
import os

VERIF = os.path.dirname(os.path.dirname(os.path.abspath(__file__)))

# id -> (level, technique, text, note, design_ref)
CHECKS = {
    "C08": ("exploration",
            "exhaustive small-domain enumeration + Hypothesis, reference = delays as functions on times",
            "Every TieredInterval pair/triple/composition with pre_length,len<=3 (thorough 4), all cutoffs, tier "
            "values 0..2 (thorough 0..3) is compared with an independent reference (pointwise order of the delay "
            "functions); Hypothesis adds shapes up to length 6 with integers up to 1e6. Exhaustive for the stated "
            "bound, sampled beyond it.",
            "Trusts the reference reading 'a<=b iff arrival via a is never later than via b for every departure "
            "time'; reference-incomparable pairs carry no obligation. Every comparable pair is also compared with operands that were used before (applied to a time, printed): the relation must not depend on an operand's history.",
            "DESIGN.md 4/C08"),
    "C12": ("exploration",
            "exhaustive enumeration of model descriptions and set-operator tables vs brute-force bitmask solver; "
            "Hypothesis set-expression trees; sampled end-to-end World.start/connect incl. restarts of one simulator "
            "class with a shared description under different types",
            "All 9^5*3*3 model descriptions over a 3-name universe (+ fresh name) are classified by parse_attrs and "
            "by a brute-force constraint solver (accept iff exactly one consistent classification exists) and "
            "compared by membership; the complete operator table of finite/co-finite sets and generated "
            "expression trees are compared with a bitmask model; sampled descriptions go through World.start and "
            "connect. Exhaustive on the bounded domain.",
            "Trusts the documented type defaults encoded in the solver (calibrated on rows of the repository's own "
            "table); universe of 3 names.",
            "DESIGN.md 4/C12"),
    "C18": ("exploration",
            "exhaustive size/flag/seed grid x kind of iterable + Hypothesis sizes up to 5000, validity predicates over "
            "recorded connect calls, deterministic executed-line bound for termination",
            "Every (|src| 0..12, |dest| 1..8, evenly, max_connects) inside the documented precondition x 50 seeds is "
            "run against a recording World and checked for: each source once, only dest_set members, even spread / "
            "max_connects cap, returned set exact, no exception; a sample runs against a real World.",
            "The helpers are assumed to use World.connect only; the seed of the global random module is part of the case. A finite max_connects is passed as int or as a float with integral value.",
            "DESIGN.md 4/C18"),
    "C05": ("exploration",
            "Hypothesis-generated scenarios x schedules under a controlled asyncio selector (exact deadlock/livelock "
            "verdicts) + FIFO-deviation-bounded exhaustive schedule enumeration; outcome oracle",
            "Generated scenarios (group trees, plain/shifted/weak connections, local + in-memory remote transport, "
            "lazy/cache on/off) with compliant scripted simulators are run under a selector that owns every reply and "
            "the clock: run() must return; an idle loop with nothing pending is a deadlock, a busy loop without "
            "events a livelock, any exception an internal error. Micro-topologies get every schedule that deviates "
            "from FIFO in <= 2 (thorough 3) decision points.",
            "Scripted simulators; interleavings at event-loop-iteration granularity; until <= 8, <= 5 simulators. Open "
            "findings F04 (lazy wait cycle) and F05 (incomparable path delays) are excluded by narrow signatures that "
            "are re-derived per case (differential lazy on/off; reference delay model). A sixth of the generated scenarios carry an async_requests flag on a data-flow (found F24/F25, both repaired).",
            "DESIGN.md 4/C05"),
    "C01": ("exploration",
            "Hypothesis-generated scenarios x schedules under a controlled asyncio selector + deviation-bounded "
            "exhaustive schedule enumeration; invariant over the global event history (history monitor with reference delays)",
            "Generated scenarios (all connection kinds, nested/sibling groups, both transports, lazy/cache on/off) run "
            "under random, adversarial and enumerated schedules; a monitor written from the documentation checks on "
            "the global order of step() begins and get_data() returns that no consumer steps while a producer is in "
            "flight or has a demanded step whose delayed output is due at or before it, and vice versa.",
            "Scripted simulators; reference delays from the case's group tree; explored schedule bound only.",
            "DESIGN.md 4/C01"),
    "C02": ("exploration",
            "Hypothesis-generated scenarios x schedules under a controlled asyncio selector; history monitor "
            "(reference demand set) as oracle, cross-checked with world.execution_graph in debug runs",
            "The monitor derives the demanded tiered times from observed replies and requires each step to be the "
            "minimum outstanding demand, strictly increasing, inside [0, until), and no demand left at the end; "
            "debug runs compare the labels with the documented execution graph.",
            "'Demanded' as read by the monitor (DESIGN 2.3); runs aborted by C05-class failures are counted, not judged. Scenario-script styles (connect inside open groups, World.get_data before run, progress displays), value shapes and hierarchical child entities of a non-public model are part of the generated scenarios.",
            "DESIGN.md 4/C02"),
    "C03": ("exploration",
            "Hypothesis-generated scenarios x schedules; reference reconstruction of every step's inputs from the "
            "observed get_data replies (tokens identify producing steps)",
            "At every step() the observed inputs are compared slot by slot with the inputs rebuilt from the replies "
            "observed so far (persistent: most recent value due / initial data / None; events: each due value once). "
            "Open findings F10 (initial data in the shared source cache), F11 (event connection with initial data "
            "becomes memory) and F12 (integer-keyed buffers vs tiered time) are excluded by shape signatures.",
            "Opaque JSON tokens; one connection per input slot; persistent attributes in every reply (DESIGN 2.3). Values are unique tokens, JSON objects with changing key sets, lists, falsy values (explicit None, 0, '', False, [], {}) and a small repeating domain (the latter two for persistent outputs only); scenario scripts may query outputs with World.get_data before run().",
            "DESIGN.md 4/C03"),
    "C06": ("exploration",
            "exhaustive enumeration of small connection multigraphs x group placements (all graphs over 2 simulators, all "
            "plain/weak graphs over 4 simulators in two groups) + Hypothesis graphs; "
            "independent graph oracle (networkx simple cycles, reference group tree)",
            "Every multigraph over 2 simulators (quick) / 3 simulators with <= 3 edges (thorough) in all group "
            "placements, plus generated graphs up to 5 simulators: run(until=0) must raise ScenarioError iff the "
            "oracle finds an unresolved cycle, the named cycle must be real and unresolved, nobody may be stepped; "
            "rejected scenarios are re-run with until>0.",
            "Oracle's reading of 'stays inside the shared group' (closest common group); F05 (incomparable path "
            "delays) excluded by a signature re-derived with the reference delay model.",
            "DESIGN.md 4/C06"),
    "C07": ("exploration",
            "Hypothesis-generated scenarios x schedules; history monitor with cause sets per executed step",
            "For every step(t, max_advance=m): m <= until, m == until without trigger inputs, and every cause of a "
            "later step in (t, m] must be traceable (self-schedules and trigger outputs, transitively) to a step of "
            "the simulator itself at or after t; schedules force ancestors to be in flight when m is computed.",
            "Cause chains visible to the monitor; non-real-time runs.",
            "DESIGN.md 4/C07"),
    "C09": ("exploration",
            "full grid of weak loops (size x tier x budget x max_loop_iterations x schedules) + Hypothesis scenarios; "
            "differential against the same case with the guard far away",
            "The unguarded run (max_loop_iterations=10^6) tells how many sub-steps each simulator needs per time; the "
            "guarded run must raise SimulationError naming a simulator over the bound iff somebody needs more than "
            "max, never execute more than max, and otherwise equal the unguarded run.",
            "Two-sided count-based claim only for loops with one weak edge per cycle (grid); in generated scenarios "
            "the bound is read per sub-tier (sub-step index from the reference monitor's labels). A no-loop family (one weak hop per time step closed by a time-shifted connection, run longer than the bound) is judged under the count-based claim; it reproduces the open finding F26.",
            "DESIGN.md 4/C09"),
    "C10": ("exploration",
            "Hypothesis-generated scenarios x schedules with lazy_stepping=True; history monitor + metamorphic "
            "control run with lazy_stepping=False",
            "At every step() begin of a producer no direct consumer may be in a step, or have a known demanded step, "
            "earlier than that time; the control run without lazy stepping must run ahead (non-triviality). Includes "
            "real-time cases on the virtual clock (consumers several periods slow).",
            "'Outstanding' = demanded according to replies observed so far.",
            "DESIGN.md 4/C10"),
    "C04": ("exploration",
            "metamorphic / differential: one generated scenario with input-sensitive scripted simulators run under "
            "10 variants (schedules, start order, lazy, cache, debug, transport) + enumerated schedules",
            "The per-simulator sequences of (time, inputs) must be identical in all variants; behaviours hash their "
            "inputs so any divergence propagates. Micro-topologies: every schedule within 2 (thorough 3) deviations "
            "from FIFO is compared with the FIFO run.",
            "Deterministic scripted simulators; differences whose earliest divergent step carries the monitor's "
            "signature of open findings F10/F12 (or F04/F05 outcomes) are attributed to those findings. Micro-topologies with falsy / repeating / object values and a constant measurement queried before run() get the complete variant set.",
            "DESIGN.md 4/C04"),
    "C13": ("fault_enumeration",
            "enumeration of every (simulator, step index) x malformed reply value on base scenarios (also in real-time "
            "mode on a virtual clock with a pending set_event) + Hypothesis "
            "(scenario, schedule, fault) triples; outcome oracle",
            "One malformed reply (non-int / not-later next step, output time in the past, no next step from a "
            "time-based simulator) per run at every step index, both transports: run() must raise an error naming "
            "the simulator, the offender is not stepped again, nobody steps into its past, the loop is closed.",
            "One fault per run; bool next steps / float output times recorded only.",
            "DESIGN.md 4/C13"),
    "C14": ("fault_enumeration",
            "enumeration of every request index (setup_done, step, get_data) x fault kind x transport x schedule x "
            "shutdown mode on base scenarios + Hypothesis triples, under the controlled loop (exact hang verdicts)",
            "A simulator raises, closes its connection or has it reset at every request index (incl. forwarded "
            "asynchronous requests in controller/agent scenarios): run() must end (idle loop = hang), within the stop "
            "time-outs (virtual clock), every other simulator finalized exactly once, loop closed, no open transport, "
            "no pending task. Sampled real-process tier: three cmd simulators over TCP, one dies (os._exit) or "
            "raises: run() ends, the other processes finalize once and exit, no descriptor leak.",
            "Exhaustive enumeration on the in-memory transport; the real-process tier is sampled and uses wall-clock "
            "budgets (time-out re-run once); open finding F15 (runner tasks keep running during shutdown) excluded "
            "by signature. Fault kinds: exception types, close, reset, and close_after (the process ends between two requests; found F27, repaired); every fault is also run with the default and the per-simulator progress display.",
            "DESIGN.md 4/C14"),
    "C11": ("exploration",
            "model-based testing: Hypothesis-generated programs of scenario-API calls interpreted against the real "
            "World and a model of accepted data-flows + complete placement x flag x validity table (incl. two-digit "
            "sibling positions) + metamorphic differential (program with rejected pairs vs the same program without them)",
            "Programs (enter/leave world.group(), start with generated model descriptions, connect with valid and "
            "invalid attribute names and every flag combination) run against the World and a model: ScenarioError "
            "iff one of the four documented reasons holds; afterwards run() must show values exactly on accepted "
            "slots, judge cycles by the accepted flows only, and entity_graph edges only from accepted pairs. "
            "Behavioural tier: a weak loop in one group and an observer in the same / nested / sibling / cousin / "
            "other-depth group under several schedules, judged by the history monitor (who may follow whose sub-steps).",
            "Attribute classes from C12's reference solver; the scoping tier trusts the monitor's reference group "
            "semantics (calibrated on the repository's scenario expectations, DESIGN 10.8). Every table row is also issued inside the still open group block(s) and with the string shorthand for equally named attributes.",
            "DESIGN.md 4/C11"),
    "C15": ("exploration",
            "complete version table (16 versions x explicit x 7 stub kinds x type) + Hypothesis versions; recorded "
            "literal requests of stub simulators; differential against a v3 stub",
            "Each stub (in-process with v3 / v2 / mixed signatures, raw-protocol remote over the in-memory transport) "
            "is started and run: step has 2 positional arguments iff version < 3, setup_done iff >= 2.2, "
            "time_resolution iff the signatures accept it, missing type => time-based, ScenarioError iff >= 4 / "
            "explicit mismatch / v2 signatures claiming >= 3; (time, inputs) equal to the v3 stub's.",
            "Numeric dotted versions; v3 without type is recorded, not judged. Every in-process row is also run as the second of two instances whose init() return one shared meta dict.",
            "DESIGN.md 4/C15"),
    "C16": ("exploration",
            "Hypothesis-generated controller/agent scenarios x schedules + enumerated schedules; trace oracle for "
            "set_data delivery, ordering and refusal",
            "Agents (local and in-memory remote) call set_data/get_data during their steps: every accepted value must "
            "appear exactly once in the controller's next step, the controller must not begin a later step while an "
            "agent's step is unfinished, calls without an async_requests connection (first and repeated, set and get) "
            "must be refused with ScenarioError and leave no effect.",
            "Values returned by async get_data are not judged. set_data values are strings, JSON objects with changing key sets or lists.",
            "DESIGN.md 4/C16"),
    "C17": ("exploration",
            "Hypothesis-generated real-time cases on a virtual clock (loop.time, selector, perf_counter substituted): "
            "durations, timer jitter and external set_event instants are generated; trace + log oracle; "
            "differential rt_strict on/off",
            "On the virtual clock: no step for t begins before rt_factor*time_resolution*(t-1); compliant runs "
            "complete; instant simulators are never reported too slow; set_event(t) in the future => step at t, "
            ">= until => warning and no step, non-rt => error; rt_strict only turns the first report into RuntimeError.",
            "Virtual clock (OS jitter = generated non-negative timer latency, answers take >= 1 ns); float-noise "
            "reports (< 1e-9 s with non-dyadic periods) are counted, not judged; open finding F19 (polling drift) "
            "excluded by signature.",
            "DESIGN.md 4/C17"),
}

NOT_YET = {}


def main():
    props = [json.loads(l) for l in open(os.path.join(VERIF, "properties.jsonl"))]
    checks = []
    na = []
    for p in props:
        pid = p["id"]
        if pid in CHECKS:
            level, tech, text, note, ref = CHECKS[pid]
            checks.append({
                "property_id": pid,
                "quick_cmd": f"./check {pid} quick",
                "thorough_cmd": f"./check {pid} thorough",
                "evidence_file": f"evidence/{pid}.json",
                "replay_cmd_template": f"./check {pid} --replay {{path}}",
                "engine": "mvf",
                "level_claimed": {"category": level, "text": text, "design_ref": ref},
                "level_note": note,
                "technique": tech,
            })
        else:
            na.append({"property_id": pid,
                       "reason": NOT_YET.get(pid, "check not built yet in this round (planned, see DESIGN.md section 4); "
                                                  "not claimed until its check runs clean on the unchanged tree")})
    man = {
        "version": 1,
        "setup_cmd": "./setup.sh",
        "hooks": {
            "guard": "MOSAIK_VERIF",
            "enable": "no source hooks are used: the event loop is injected through World(asyncio_loop=...), "
                      "transports through StarterCollection, the clock is substituted from the test side; "
                      "MOSAIK_VERIF is reserved and unused",
            "baseline_off_cmd": "cd /repo && /venv/bin/python -m pytest -ra -q -p no:cacheprovider --timeout=900 "
                                "--continue-on-collection-errors",
            "source_commits": [],
            "add_only": True,
        },
        "engines": [{
            "name": "mvf",
            "path": "mvf/",
            "serves_properties": sorted(CHECKS),
            "kind_free_text": "property-based testing / fuzzing framework: Hypothesis strategies and exhaustive "
                              "small-domain enumeration drive the real mosaik code under a controlled asyncio "
                              "selector (schedule, virtual clock, in-memory transport, fault injection); oracles are "
                              "a history monitor, reference models, differential and metamorphic relations",
        }],
        "checks": checks,
        "not_applicable": na,
        "notes": "Exit 0 held / 1 VIOLATION / 2 harness error. VERIF_SEED seeds every Hypothesis shard. "
                 "known_findings.json lists genuine defects (open: excluded by signature; fixed: regression replays).",
    }
    with open(os.path.join(VERIF, "MANIFEST.json"), "w") as f:
        json.dump(man, f, indent=1)
    print("MANIFEST.json:", len(checks), "checks,", len(na), "not claimed")


if __name__ == "__main__":
    main()

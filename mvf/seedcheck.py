"""Confirm an independently written breaking change and run the checks against it.

    python -m mvf.seedcheck <worktree with SEED/patch.diff, SEED/demo.py> <seed id> <property> [more properties]

1. the existing suite passes with the change, 2. the demonstration fails with it and passes without it,
3. the quick checks of the given properties are run against the changed tree (MVF_REPO=<worktree>).
The result is stored as /verif/seeded/<seed id>/ (patch.diff, demo.py, notes.md, meta.json).
"""
import json
import os
import shutil
import subprocess
import sys

VERIF = os.path.dirname(os.path.dirname(os.path.abspath(__file__)))


def sh(cmd, cwd=None, env=None, timeout=1800):
    r = subprocess.run(cmd, cwd=cwd, env=env, capture_output=True, text=True, timeout=timeout, shell=isinstance(cmd, str))
    return r.returncode, (r.stdout + r.stderr)


def main():
    wt, sid, props = sys.argv[1], sys.argv[2], sys.argv[3:]
    meta = {"seed": sid, "worktree": wt, "breaks_property": props[0], "ran": []}
    patch = os.path.join(wt, "SEED", "patch.diff")
    rc, out = sh("git status --short -- mosaik", cwd=wt)
    meta["changed_files"] = [l.strip() for l in out.splitlines() if l.strip()]
    rc, out = sh("/venv/bin/python -m pytest -q -p no:cacheprovider --timeout=900 2>&1 | tail -3", cwd=wt)
    meta["suite_with_change"] = out.strip().splitlines()[-1] if out.strip() else "?"
    meta["ran"].append("pytest (with change): " + meta["suite_with_change"])
    env = dict(os.environ, PYTHONPATH=wt)
    rc1, out1 = sh(["/venv/bin/python", "SEED/demo.py"], cwd=wt, env=env, timeout=600)
    # (no `git stash`: the stash is shared between all worktrees of a repository)
    tmp = os.path.join(wt, "SEED", ".seedcheck_current.diff")
    sh(f"git diff -- mosaik > {tmp}", cwd=wt)
    sh("git checkout -- mosaik", cwd=wt)
    try:
        rc0, out0 = sh(["/venv/bin/python", "SEED/demo.py"], cwd=wt, env=env, timeout=600)
    finally:
        sh(f"git apply {tmp}", cwd=wt)
        os.remove(tmp)
    meta["demo_exit_with_change"], meta["demo_exit_without_change"] = rc1, rc0
    meta["demo_tail_with_change"] = out1.strip().splitlines()[-3:]
    meta["ran"].append(f"SEED/demo.py: exit {rc1} with the change, exit {rc0} without")
    ok = ("passed" in meta["suite_with_change"] and "failed" not in meta["suite_with_change"] and rc1 == 1 and rc0 == 0)
    meta["confirmed"] = ok
    meta["checks"] = {}
    for p in props:
        envc = dict(os.environ, MVF_REPO=wt, MVF_NO_EVIDENCE="1")
        envc.pop("PYTHONPATH", None)
        rc, out = sh([os.path.join(VERIF, "check"), p, "quick"], env=envc)
        rules = sorted({l.split("rule=")[1].split()[0] for l in out.splitlines() if "rule=" in l})
        msgs = [l.strip()[:300] for l in out.splitlines() if l.startswith("  ") and "rule=" not in l][:2]
        meta["checks"][p] = {"rc": rc, "rules": rules[:6], "first_messages": msgs}
        meta["ran"].append(f"MVF_REPO={wt} ./check {p} quick -> rc={rc} {rules[:4]}")
    d = os.path.join(VERIF, "seeded", sid)
    os.makedirs(d, exist_ok=True)
    for name in ("patch.diff", "demo.py", "notes.md"):
        src = os.path.join(wt, "SEED", name)
        if os.path.exists(src):
            shutil.copy(src, os.path.join(d, name))
    for extra in os.listdir(os.path.join(wt, "SEED")):
        if extra.endswith(".py") and extra != "demo.py":
            shutil.copy(os.path.join(wt, "SEED", extra), os.path.join(d, extra))
    json.dump(meta, open(os.path.join(d, "meta.json"), "w"), indent=1)
    print(json.dumps({k: meta[k] for k in ("seed", "confirmed", "suite_with_change", "demo_exit_with_change",
                                           "demo_exit_without_change", "checks")}, indent=1))


if __name__ == "__main__":
    main()

"""False-alarm test: run the quick checks against an independently written *property-preserving* change.

    python -m mvf.preserve_check <worktree with SEED/patch.diff> <id> [properties ... | all]

The change alters observable behaviour that the property statement leaves free (wording, tie breaks, extra yields,
more conservative values ...).  1. the existing suite passes with the change, 2. SEED/demo.py exits 0,
3. the quick checks of the given properties (default: all 18) run against the changed tree (MVF_REPO=<worktree>).
Every exit code other than 0 is a candidate false alarm and has to be triaged by hand (DESIGN 10.9).
The result is stored as /verif/seeded/preserving/<id>/ (patch.diff, demo.py, notes.md, meta.json).
"""
import json
import os
import shutil
import subprocess
import sys

VERIF = os.path.dirname(os.path.dirname(os.path.abspath(__file__)))
ALL = [f"C{i:02d}" for i in range(1, 19)]


def sh(cmd, cwd=None, env=None, timeout=3600):
    r = subprocess.run(cmd, cwd=cwd, env=env, capture_output=True, text=True, timeout=timeout, shell=isinstance(cmd, str))
    return r.returncode, (r.stdout + r.stderr)


def main():
    wt, sid, props = sys.argv[1], sys.argv[2], sys.argv[3:]
    if not props or props == ["all"]:
        props = ALL
    meta = {"id": sid, "kind": "property-preserving change (false-alarm test)", "ran": []}
    rc, out = sh("git status --short -- mosaik", cwd=wt)
    meta["changed_files"] = [l.strip() for l in out.splitlines() if l.strip()]
    rc, out = sh("/venv/bin/python -m pytest -q -p no:cacheprovider --timeout=900 2>&1 | tail -3", cwd=wt)
    meta["suite_with_change"] = out.strip().splitlines()[-1] if out.strip() else "?"
    meta["ran"].append("pytest (with change): " + meta["suite_with_change"])
    if os.path.exists(os.path.join(wt, "SEED", "demo.py")):
        rc1, out1 = sh(["/venv/bin/python", "SEED/demo.py"], cwd=wt, env=dict(os.environ, PYTHONPATH=wt), timeout=600)
        meta["demo_exit_with_change"] = rc1
        meta["ran"].append(f"SEED/demo.py: exit {rc1} with the change")
    meta["checks"] = {}
    logdir = os.path.join(wt, "SEED", "logs")
    os.makedirs(logdir, exist_ok=True)
    for p in props:
        envc = dict(os.environ, MVF_REPO=wt, MVF_NO_EVIDENCE="1")
        envc.pop("PYTHONPATH", None)
        rc, out = sh([os.path.join(VERIF, "check"), p, "quick"], env=envc)
        open(os.path.join(logdir, p + ".log"), "w").write(out)
        rules = sorted({l.split("rule=")[1].split()[0] for l in out.splitlines() if "rule=" in l})
        msgs = [l.strip()[:400] for l in out.splitlines() if l.startswith("  ") and "rule=" not in l][:2]
        meta["checks"][p] = {"rc": rc, "rules": rules[:6], "first_messages": msgs if rc else []}
        meta["ran"].append(f"MVF_REPO={wt} ./check {p} quick -> rc={rc} {rules[:4] if rc else ''}")
        print(p, rc, rules[:4] if rc else "", flush=True)
    meta["alarms"] = sorted(p for p, r in meta["checks"].items() if r["rc"] != 0)
    d = os.path.join(VERIF, "seeded", "preserving", sid)
    os.makedirs(d, exist_ok=True)
    if os.path.exists(os.path.join(wt, "SEED", "patch.diff")):
        shutil.copy(os.path.join(wt, "SEED", "patch.diff"), os.path.join(d, "patch.diff"))
    else:
        sh(f"git diff -- mosaik > {os.path.join(d, 'patch.diff')}", cwd=wt)
    for name in ("demo.py", "notes.md"):
        src = os.path.join(wt, "SEED", name)
        if os.path.exists(src):
            shutil.copy(src, os.path.join(d, name))
    json.dump(meta, open(os.path.join(d, "meta.json"), "w"), indent=1)
    print(json.dumps({k: meta[k] for k in ("id", "suite_with_change", "alarms")}, indent=1))


if __name__ == "__main__":
    main()

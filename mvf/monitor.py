"""History monitor: reference semantics of the scheduler, written from the documentation and the
property statements.  It consumes the trace of a run (events at the simulator API boundary) plus the
case data that built the scenario; it never reads mosaik's internal state.

Rules are tagged with the property they decide:  C01.* causal readiness, C02.* exact step set,
C03.* data-flow fidelity, C07.* max_advance, C10.* lazy stepping.
"""
from __future__ import annotations

import json

from mvf import harness, reftime


def hk(v):
    """hashable key of a JSON value (payloads need not be strings)"""
    if isinstance(v, str):
        return v
    try:
        return "\0json:" + json.dumps(v, sort_keys=True)
    except Exception:  # noqa
        return "\0repr:" + repr(v)


class V(dict):
    def __init__(self, rule, msg, **feat):
        super().__init__(rule=rule, msg=msg, feat=feat)


NOINIT = object()


class Conn:
    def __init__(self, c, groups):
        self.c = c
        self.src, self.dst = c["src"], c["dst"]
        self.delay = reftime.conn_delay(groups, c)
        self.adapt = reftime.delay(groups[c["src"]], groups[c["dst"]])
        if "explicit" in c:
            # calibration against foreign simulators: everything is given explicitly
            x = c["explicit"]
            self.seid, self.deid, self.sattr, self.dattr = x["seid"], x["deid"], x["sattr"], x["dattr"]
            self.trigger, self.persistent = x["trigger"], x["persistent"]
            self.init = x.get("init", None) if x.get("has_init") else None
            self.init_is_none_value = bool(x.get("has_init")) and x.get("init", None) is None
        else:
            self.seid, self.deid = f"e{c['se']}", f"e{c['de']}"
            self.sattr, self.dattr = c["sa"], c["da"]
            self.trigger = c["da"] == "ti"
            self.persistent = c["sa"] == "po"
            self.init = harness.init_token(c) if c.get("init") else None
        self.key = f"{self.src}.{self.seid}"
        self.hist = []      # [due, seq, token, delivered, producing label]
        crossing = groups[c["src"]] != groups[c["dst"]]
        self.kind = ("weak" if c.get("weak") else f"shift{c['shift']}" if c.get("shift") else "plain") + \
                    ("+crossing" if crossing else "")

    def slot(self):
        return (self.deid, self.dattr, self.key)


class Monitor:
    def __init__(self, scn):
        self.scn = scn
        self.until = scn["until"]
        self.groups = scn["groups"] if "groups" in scn else harness.sim_groups(scn)
        self.types = {s["sid"]: s["type"] for s in scn["sims"]}
        self.lazy = scn.get("run", {}).get("lazy_stepping", True)
        self.cache = scn.get("world", {}).get("cache", True)
        self.conns = [Conn(c, self.groups) for c in scn.get("conns", [])]
        self.into = {s: [c for c in self.conns if c.dst == s] for s in self.groups}
        self.outof = {s: [c for c in self.conns if c.src == s] for s in self.groups}
        self.pending = {s: {} for s in self.groups}       # label -> list of causes
        self.causes = {s: {} for s in self.groups}        # executed label -> causes
        self.inflight = {s: None for s in self.groups}
        self.begun = {s: [] for s in self.groups}
        self.promises = {s: [] for s in self.groups}      # (label, max_advance)
        self.seq = 0
        self.viol = []
        self.stats = dict(steps=0, trigger_steps=0, inserted_earlier=0, memory_inputs=0, event_inputs=0,
                          substeps=0, promises_lt_until=0, inflight_overlap=0, lazy_relevant=0,
                          multi_event_slot=0, initial_data_used=0, ancestor_inflight_at_promise=0)
        self.tokens = {}     # token -> conn list it was produced for (by source port)
        self.seen = {}       # (sim, slot, token) -> label of the first step that received it
        self.out_times = {}  # sim -> integer output times of its real get_data replies
        for s, typ in self.types.items():
            if typ != "event-based":
                self.pending[s][reftime.zero(self.groups[s])] = [("initial",)]
        # set_initial_event on a time-based / hybrid simulator: the documentation describes the call for event-based
        # simulators only; mosaik replaces the automatic step at time 0 by the initial event.  The statement would
        # also allow both, so a step at time 0 is accepted (not demanded) there.
        self.optional_zero = set()
        for s, t in scn.get("initial_events", {}).items():
            if self.types[s] != "event-based" and t > 0:
                self.optional_zero.add(s)
            self.pending[s] = {}
            if t < self.until:
                self.pending[s][reftime.from_world(self.groups[s], t)] = [("initial",)]
        self.has_trigger_input = {s: any(c.trigger for c in self.into[s]) for s in self.groups}

    def v(self, rule, msg, **feat):
        self.viol.append(V(rule, msg, **feat))

    def src_cache_init(self, c, L=None):
        """F10's regime: the cache is on, the source simulator's output cache holds initial-data entries (some
        persistent output of it feeds a shifted/weak connection with initial data) AND the lookup can fall on them:
        no real output of the source is old enough for this connection's lookup time (step time - shift), or one of
        the initial entries sits at key 0 (weak connection without shift), whose dict position a real output at
        time 0 inherits (lookups go by insertion order)."""
        if not c or not self.cache:
            return False
        inits = [o for o in self.conns if o.src == c.src and o.persistent and o.init]
        if not inits:
            return False
        if L is None:
            return True
        if any(not o.c.get("shift") for o in inits):
            return True
        lookup = L[0] - int(c.c.get("shift") or 0)
        return not any(t <= lookup for t in self.out_times.get(c.src, []))

    # ------------------------------------------------------------------ events
    def run(self, res):
        """feed the whole trace of a harness.Result; returns the list of violations"""
        for e in res.trace:
            k = e[0]
            if k == "step_begin":
                self.step_begin(e[1], e[2], e[3], e[4])
            elif k == "step_end":
                self.step_end(e[1], e[2])
            elif k == "get_end":
                self.get_end(e[1], e[2])
        if res.outcome == "returned":
            self.end()
            if res.exec_nodes is not None:
                mine = sorted([s, list(L)] for s in self.begun for L in self.begun[s])
                # (a node with a negative time is not a step: with async_requests the debug graph gets a placeholder
                # node (sid, -1) for a simulator that has not stepped yet)
                theirs = sorted(n for n in res.exec_nodes if not (n[1] and n[1][0] < 0))
                if mine != theirs:
                    self.v("C02.label", f"execution graph nodes {res.exec_nodes} != monitor labels {mine}")
        return self.viol

    def step_begin(self, s, t, inputs, max_advance):
        self.stats["steps"] += 1
        pend = self.pending[s]
        d = reftime.depth(self.groups[s])
        if s in self.optional_zero:
            self.optional_zero.discard(s)
            if t == 0 and not any(x[0] == 0 for x in pend):
                pend[reftime.zero(self.groups[s])] = [("initial",)]
        if not pend:
            self.v("C02.spurious", f"{s} stepped at {t} without any demand")
            L = (t,) + (0,) * (d - 1)
            causes = [("none",)]
        else:
            L = min(pend)
            if L[0] != t:
                cand = [x for x in pend if x[0] == t]
                if cand:
                    self.v("C02.skipped", f"{s} stepped at {t} while an earlier demand {L} is outstanding")
                    L = min(cand)
                else:
                    self.v("C02.spurious", f"{s} stepped at {t}; demanded: {sorted(pend)}")
                    L = (t,) + (0,) * (d - 1)
            causes = pend.pop(L, [("none",)])
        self.causes[s][L] = causes
        if any(c[0] == "trigger" for c in causes):
            self.stats["trigger_steps"] += 1
        if any(x for x in L[1:]):
            self.stats["substeps"] += 1
        if self.begun[s] and not (self.begun[s][-1] < L):
            rule = "C02.duplicate" if self.begun[s][-1] == L else "C02.order"
            self.v(rule, f"{s}: step {L} after {self.begun[s][-1]}")
        if not (0 <= t < self.until):
            self.v("C02.range", f"{s} stepped at {t}, until={self.until}")
        if self.inflight[s] is not None:
            self.v("C02.overlap", f"{s} stepped at {L} while its step {self.inflight[s]} is unfinished")
        if sum(1 for x in self.inflight.values() if x is not None) >= 1:
            self.stats["inflight_overlap"] += 1

        # ---- C01 causal readiness
        for c in self.into[s]:
            p = c.src
            if p == s:
                continue
            fl = self.inflight[p]
            if fl is not None and reftime.apply(c.delay, fl) <= L:
                self.v("C01.producer_unfinished",
                       f"{s} began {L} while {p} is in flight at {fl} (its output over {c.kind} is due "
                       f"{reftime.apply(c.delay, fl)})", kind=c.kind)
            for D in self.pending[p]:
                if reftime.apply(c.delay, D) <= L:
                    self.v("C01.producer_pending",
                           f"{s} began {L} while {p} has a demanded, unexecuted step {D} (output over {c.kind} "
                           f"due {reftime.apply(c.delay, D)})", kind=c.kind)
        for c in self.outof[s]:
            q = c.dst
            if q == s or not self.begun[q]:
                continue
            if self.begun[q][-1] >= reftime.apply(c.delay, L):
                self.v("C01.late_step",
                       f"{s} stepped at {L} after its consumer {q} had begun {self.begun[q][-1]} "
                       f"(delayed output time {reftime.apply(c.delay, L)} over {c.kind})", kind=c.kind)

        # ---- C10 lazy stepping
        if self.lazy:
            for c in self.outof[s]:
                q = c.dst
                if q == s:
                    continue
                # The statement speaks of *times*: "does not begin a step at time t while any simulator it feeds
                # still has a step earlier than t outstanding".  Sub-steps of the same time are not "earlier": a
                # consumer's sub-step (t, 0) may only be able to run after the producer's same-time loop at t has
                # ended (F04), so a sub-step reading would be unsatisfiable in accepted scenarios (DESIGN 10.4/12).
                fl = self.inflight[q]
                if fl is not None and fl[0] < L[0]:
                    self.v("C10.run_ahead", f"{s} began {L} while its consumer {q} is still in step {fl} (time {fl[0]} "
                                            f"< {L[0]})", kind=c.kind)
                for D in self.pending[q]:
                    if D[0] < L[0]:
                        self.v("C10.run_ahead",
                               f"{s} began {L} while its consumer {q} has an outstanding demanded step {D} "
                               f"(time {D[0]} < {L[0]})", kind=c.kind)
                        break

        # ---- C07 max_advance
        m = max_advance
        if m is not None:
            if m > self.until:
                self.v("C07.range", f"{s}@{L}: max_advance {m} > until {self.until}")
            if not self.has_trigger_input[s] and m != self.until:
                self.v("C07.range", f"{s}@{L}: no trigger inputs but max_advance {m} != until {self.until}")
            if m < self.until:
                self.stats["promises_lt_until"] += 1
            for (Lp, mp) in self.promises[s]:
                if Lp[0] < t <= mp:
                    for cause in causes:
                        if not self.own_control(cause, s, Lp, set()):
                            self.v("C07.promise",
                                   f"{s}@{Lp} was promised max_advance={mp} but is stepped at {L} because of "
                                   f"{cause}, which does not originate from {s} at or after {Lp}")
                            break
            self.promises[s].append((L, m))

        # ---- C03 inputs
        self.check_inputs(s, L, inputs)
        self.inflight[s] = L
        self.begun[s].append(L)

    def own_control(self, cause, s, Lp, seen):
        # iterative (cause chains are as long as the run: a thousand steps in the long runs)
        stack = [cause]
        while stack:
            cause = stack.pop()
            if cause[0] in ("initial", "none"):
                continue
            _, x, Lx = cause
            if x == s and Lx >= Lp:
                return True
            if (x, Lx) in seen:
                continue
            seen.add((x, Lx))
            # every cause of the intermediate step need not be own; one chain suffices for that hop
            stack.extend(self.causes[x].get(Lx, []))
        return False

    def check_inputs(self, s, L, inputs):
        exp = {}
        info = {}
        for c in self.into[s]:
            slot = c.slot()
            if c.persistent:
                due = [h for h in c.hist if h[0] <= L]
                if due:
                    best = max(due, key=lambda h: (h[0], h[1]))
                    exp[slot] = ("val", best[2])
                    if best[4] is not None and self.stats is not None:
                        # memory needed if the producing step is not the immediately preceding one
                        self.stats["memory_inputs"] += 1 if len(c.hist) > 1 or best[0] < L else 0
                elif c.init is not None:
                    exp[slot] = ("val", c.init)
                    self.stats["initial_data_used"] += 1
                else:
                    exp[slot] = ("val", None)
            else:
                due = [h for h in c.hist if h[0] <= L and not h[3]]
                if due:
                    best = max(due, key=lambda h: (h[0], h[1]))
                    if len(due) > 1:
                        self.stats["multi_event_slot"] += 1
                    for h in due:
                        h[3] = True
                    exp[slot] = ("val", best[2])
                    self.stats["event_inputs"] += 1
                elif c.init is not None:
                    exp[slot] = ("init_or_absent", c.init)
            info[slot] = c
        got = {}
        for eid, attrs in (inputs or {}).items():
            for attr, srcs in attrs.items():
                for key, val in srcs.items():
                    got[(eid, attr, key)] = val
        for slot, val in got.items():
            self.seen.setdefault((s, slot, hk(val)), L)
            # an event value that is handed over too early is reported once (not_yet_due) and then counts as
            # delivered, so that the same defect is not reported again as "lost" at the step where it was due
            c = info.get(slot)
            if c is not None and not c.persistent:
                for h in c.hist:
                    try:
                        if h[2] == val and h[0] > L and not h[3]:
                            h[3] = "early"
                    except Exception:  # noqa
                        pass
        for slot in sorted(set(exp) | set(got)):
            c = info.get(slot)
            e = exp.get(slot)
            has = slot in got
            g = got.get(slot)
            if e is None:
                # nothing expected in this slot
                self.v(self.classify_unexpected(s, L, slot, g, c), f"{s}@{L}: slot {slot} carries {g!r} but nothing is due",
                       kind=c.kind if c else "no_connection", cache=self.cache,
                       persistent=c.persistent if c else None, init=bool(c and c.init),
                       subtier_only=self.subtier_only(c, g, L), trigger=c.trigger if c else None,
                       src_cache_init=self.src_cache_init(c, L))
                continue
            if e[0] == "init_or_absent":
                if has and g != e[1]:
                    self.v(self.classify_unexpected(s, L, slot, g, c),
                           f"{s}@{L}: slot {slot} carries {g!r}; only the initial data or nothing is due",
                           kind=c.kind, cache=self.cache, persistent=False, init=True,
                           subtier_only=self.subtier_only(c, g, L), trigger=c.trigger,
                           src_cache_init=self.src_cache_init(c, L))
                continue
            want = e[1]
            if not has:
                rule = "C03.lost" if not c.persistent else "C03.missing_persistent"
                first = self.seen.get((s, slot, hk(want)))
                early = first is not None and first < L and first[0] == L[0]
                if not early and any(x for x in L[1:]):
                    # another value of this connection was delivered to an earlier sub-step of the same
                    # integer time (the slot's buffer is keyed by integer time)
                    early = any(k[0] == s and k[1] == slot and lab[0] == L[0] and lab < L
                                for k, lab in self.seen.items())
                if not early:
                    # the slot's buffer holds one value per integer time: another value of this connection that is
                    # due at the same integer time (a different sub-step) was delivered in its place
                    hw = [h for h in c.hist if h[2] == want]
                    if hw:
                        early = any(h2 is not hw[0] and h2[0][0] == hw[0][0][0] and (s, slot, hk(h2[2])) in self.seen
                                    for h2 in c.hist)
                self.v(rule, f"{s}@{L}: slot {slot} is absent, expected {want!r}"
                       + (f" (this slot was already served at an earlier sub-step of time {L[0]})" if early else ""),
                       kind=c.kind, cache=self.cache, persistent=c.persistent, init=bool(c.init),
                       subtier_only=False, trigger=c.trigger, early_same_time=early,
                       src_cache_init=self.src_cache_init(c, L))
            elif g != want:
                self.v(self.classify_wrong(s, L, slot, g, want, c),
                       f"{s}@{L}: slot {slot} carries {g!r}, expected {want!r}", kind=c.kind, cache=self.cache,
                       persistent=c.persistent, init=bool(c.init), subtier_only=self.subtier_only(c, g, L),
                       trigger=c.trigger, src_cache_init=self.src_cache_init(c, L))

    def subtier_only(self, c, g, L):
        """the value g is due at the same integer time as the step L and only its sub-tier is later"""
        if c is None:
            return False
        for h in c.hist:
            if h[2] == g and h[0] > L and h[0][0] == L[0]:
                return True
        return False

    def classify_unexpected(self, s, L, slot, g, c):
        if c is None:
            return "C03.invented"
        return self.classify_wrong(s, L, slot, g, None, c)

    def classify_wrong(self, s, L, slot, g, want, c):
        if g is None:
            return "C03.lost" if not c.persistent else "C03.none_instead_of_value"
        if g == c.init:
            return "C03.initial_data_instead_of_value" if want is not None else "C03.initial_data_unexpected"
        try:
            prod = self.tokens.get(hk(g))
        except TypeError:
            return "C03.mismatch"
        if prod is None:
            if any(o.init == g for o in self.conns):
                return "C03.foreign_initial_data"
            return "C03.invented"
        if c not in prod:
            return "C03.misattributed"
        for h in c.hist:
            if h[2] == g:
                if h[0] > L:
                    return "C03.not_yet_due"
                if not c.persistent and h[3]:
                    return "C03.duplicated"
                return "C03.stale"
        return "C03.mismatch"

    def step_end(self, s, nxt):
        L = self.inflight[s]
        if L is None:
            return
        if isinstance(nxt, int) and not isinstance(nxt, bool) and nxt < self.until:
            D = reftime.from_world(self.groups[s], nxt)
            self.demand(s, D, ("self", s, L))
        if not self.outof[s]:
            self.inflight[s] = None

    def demand(self, s, D, cause):
        if D[0] >= self.until:
            return
        pend = self.pending[s]
        if pend and D < min(pend):
            self.stats["inserted_earlier"] += 1
        pend.setdefault(D, []).append(cause)

    def get_end(self, s, data):
        L = self.inflight[s]
        if L is None:
            return          # asynchronous get_data outside a step (C16), not judged here
        ot = data.get("time", L[0]) if isinstance(data, dict) else L[0]
        Tout = L if ot == L[0] else reftime.from_world(self.groups[s], ot)
        self.seq += 1
        try:
            self.out_times.setdefault(s, []).append(int(Tout[0]))
        except Exception:  # noqa
            pass
        for c in self.outof[s]:
            if isinstance(data, dict) and c.seid in data and isinstance(data[c.seid], dict) \
                    and c.sattr in data[c.seid]:
                val = data[c.seid][c.sattr]
                due = reftime.apply(c.delay, Tout)
                c.hist.append([due, self.seq, val, False, L])
                try:
                    self.tokens.setdefault(hk(val), []).append(c)
                except TypeError:
                    pass        # unhashable payload (calibration with foreign simulators)
                q = c.dst
                if q != s and self.begun[q] and due <= self.begun[q][-1]:
                    self.v("C01.late_output",
                           f"{s}@{L} produced a value due {due} over {c.kind}, but {q} has already begun "
                           f"{self.begun[q][-1]}", kind=c.kind)
                if c.trigger:
                    self.demand(q, due, ("trigger", s, L))
        self.inflight[s] = None

    def end(self):
        for s, pend in self.pending.items():
            for D in sorted(pend):
                if D[0] < self.until:
                    self.v("C02.lost", f"{s}: demanded step {D} (causes {pend[D]}) was never executed")

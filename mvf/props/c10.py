"""C10 Lazy stepping bounds run-ahead."""
from __future__ import annotations

import copy

from mvf import core, gen, harness, schedprops

PROP = "C10"
LEVEL = "exploration"
RULE = ("Hypothesis-generated (scenario, schedule) cases with lazy_stepping=True (fast producers, slow consumers, "
        "chains, fan-out, group crossings; schedules that release producers first); the history monitor checks at "
        "every step() begin of a producer that no direct consumer is in a step, or has a known demanded step, earlier "
        "than that time (mapped by the reference delay without shift/weak). Metamorphic control: the same case is "
        "re-run with lazy_stepping=False and must run ahead in a measured share of cases. non-trivial = the "
        "control run (lazy off) of the same case does run ahead; distinct = distinct case hashes")
ASSUMPTIONS = [
    "'outstanding' = demanded according to replies observed so far",
    "scripted simulators; explored schedule bound only",
]


def analyse(case, res):
    if res.outcome in ("rejected", "build_error"):
        return [], False, []
    fails, mon, other = schedprops.monitor_failures(
        case, res, "C10", lambda v, c, r: f"{v['rule']}|{v['feat'].get('kind')}")
    extra = ["aborted_by_other_property"] if schedprops.aborted_by_other(res) else []
    # control: would the same case run ahead without lazy stepping?
    c2 = copy.deepcopy(case)
    c2["scenario"]["run"]["lazy_stepping"] = False
    r2 = harness.run_case(c2)
    from mvf import monitor
    m2 = monitor.Monitor(dict(c2["scenario"], run={"lazy_stepping": True}))   # judge the control run by the lazy rule
    ahead = any(v["rule"] == "C10.run_ahead" for v in m2.run(r2))
    if ahead:
        extra.append("control_runs_ahead")
    return fails, ahead, extra


check_case = schedprops.make_check_case(analyse)


def shards(tier, seed):
    return schedprops.std_shards(PROP, tier, seed)


def shard(prop, tier, seed, shard, nshards):
    acc = core.Acc(PROP, budget_s=150 if tier == "quick" else 1500)
    n = 250 if tier == "quick" else 10000
    core.drive(gen.cases(min_sims=2, lazy=True, debug_ok=False), check_case, acc, n, seed * 1000 + shard)
    micro = sorted(gen.micro_scenarios().items())
    runs, complete = 0, True
    for i, (name, scn) in enumerate(micro):
        if i % nshards != shard:
            continue
        s = dict(scn, run={"lazy_stepping": True})
        r, c = schedprops.enumerate_schedules(s, check_case, acc, 2 if tier == "quick" else 3,
                                              max_runs=600 if tier == "quick" else 30000)
        runs += r
        complete = complete and c
    acc.extra["enumerated_schedule_runs"] = runs
    acc.extra["enumeration_complete"] = complete
    return acc

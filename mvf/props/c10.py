"""C10 Lazy stepping bounds run-ahead."""
from __future__ import annotations

import copy

from mvf import core, gen, harness, schedprops

PROP = "C10"
LEVEL = "exploration"
RULE = ("Hypothesis-generated (scenario, schedule) cases with lazy_stepping=True (fast producers, slow consumers, "
        "chains, fan-out, group crossings; schedules that release producers first; also real-time mode on the virtual "
        "clock with consumers that take several periods); the history monitor checks at "
        "every step() begin of a producer that no direct consumer is in a step, or has a known demanded step, earlier "
        "than that time (mapped by the reference delay without shift/weak). Metamorphic control: the same case is "
        "re-run with lazy_stepping=False and must run ahead in a measured share of cases. non-trivial = the "
        "control run (lazy off) of the same case does run ahead; distinct = distinct case hashes"
        "; in addition six long runs (until 80 / 120 / 1100, strides of hundreds, 24 simulators) under FIFO, LIFO and a starved simulator, and the "
        "extreme policies (LIFO, steps first, get_data first, each simulator starved) before every schedule enumeration")
ASSUMPTIONS = [
    "'outstanding' = demanded according to replies observed so far",
    "scripted simulators; explored schedule bound only",
]


def analyse(case, res):
    if res.outcome in ("rejected", "build_error"):
        return [], False, []
    fails, mon, other = schedprops.monitor_failures(
        case, res, "C10", lambda v, c, r: f"{v['rule']}|{v['feat'].get('kind')}")
    extra = ["aborted_by_other_property"] if schedprops.aborted_by_other(res) else []
    # control: would the same case run ahead without lazy stepping?
    c2 = copy.deepcopy(case)
    c2["scenario"]["run"]["lazy_stepping"] = False
    r2 = harness.run_case(c2)
    from mvf import monitor
    m2 = monitor.Monitor(dict(c2["scenario"], run={"lazy_stepping": True}))   # judge the control run by the lazy rule
    ahead = any(v["rule"] == "C10.run_ahead" for v in m2.run(r2))
    if ahead:
        extra.append("control_runs_ahead")
    return fails, ahead, extra


check_case = schedprops.make_check_case(analyse)


def shards(tier, seed):
    return schedprops.std_shards(PROP, tier, seed)


def shard(prop, tier, seed, shard, nshards):
    acc = core.Acc(PROP, budget_s=150 if tier == "quick" else 1500)
    n = 250 if tier == "quick" else 10000
    core.drive(gen.cases(min_sims=2, lazy=True, debug_ok=False), check_case, acc, n, seed * 1000 + shard)
    # real-time mode is a configuration, too: fast producers, slow consumers on the virtual clock
    from hypothesis import strategies as st
    from mvf.props import c17

    @st.composite
    def rtcase(draw):
        rtf = draw(st.sampled_from([0.125, 0.25, 0.5]))
        n = draw(st.integers(2, 3))
        until = draw(st.integers(3, 7))
        steps = [draw(st.lists(st.integers(1, 2), min_size=1, max_size=2)) for _ in range(n)]
        durs = [draw(st.lists(st.sampled_from([0.0, 0.5 * rtf, rtf, 2.5 * rtf, 5 * rtf]), min_size=1, max_size=3))
                for _ in range(n)]
        c = c17.build(n, rtf, 1.0, steps, durs, True, until, strict=False,
                      jitter=draw(st.sampled_from([[], [rtf / 64] * 4])))
        if draw(st.booleans()):
            c["scenario"]["conns"] = [gen._c(x["dst"], "po", x["src"], "mi") for x in c["scenario"]["conns"]]
        return c

    core.drive(rtcase(), check_case, acc, 60 if tier == "quick" else 3000, seed * 1000 + 600 + shard)
    micro = sorted(gen.micro_scenarios().items())
    runs, complete = 0, True
    for i, (name, scn) in enumerate(micro):
        if i % nshards != shard:
            continue
        s = dict(scn, run={"lazy_stepping": True})
        r, c = schedprops.enumerate_schedules(s, check_case, acc, 2 if tier == "quick" else 3,
                                              max_runs=600 if tier == "quick" else 30000)
        runs += r
        complete = complete and c
    acc.extra["enumerated_schedule_runs"] = runs
    acc.extra["enumeration_complete"] = complete
    schedprops.run_long(check_case, acc, shard, nshards)
    return acc

"""C04 Schedule and configuration independence (determinism)."""
from __future__ import annotations

import copy

from mvf import core, gen, harness, schedprops
from mvf.core import Failure

PROP = "C04"
LEVEL = "exploration"
RULE = ("one Hypothesis-generated scenario with input-sensitive deterministic behaviours (next step and outputs "
        "depend on a hash of the inputs seen, so any divergence propagates) is executed under K variants: FIFO "
        "(base), lifo, starve-one, random picks, a start-order permutation (children of every group shuffled), "
        "lazy off, cache off, debug on, all simulators over the in-memory remote transport, mixed transports; "
        "oracle = metamorphic relation: the per-simulator sequences of (time, inputs) are identical in all runs "
        "(max_advance excluded); micro-topologies get every schedule deviating from FIFO in <= 2 decision points. "
        "non-trivial = the variants really differed in their global event order and the scenario has a "
        "connection; distinct = distinct base case hashes"
        "; in addition six long runs (until 80 / 120 / 1100, strides of hundreds, 24 simulators) under FIFO, LIFO and a starved simulator, and the "
        "extreme policies (LIFO, steps first, get_data first, each simulator starved) before every schedule enumeration")
ASSUMPTIONS = [
    "scripted deterministic simulators; dict equality after JSON normalisation",
    "a difference whose earliest divergent step is flagged by the C03 monitor with the signature of an open finding "
    "(F10 cache / F12 integer-keyed buffers) is attributed to that finding, likewise F04/F05 outcomes",
]

DIMS = ("schedule", "start_order", "lazy", "cache", "debug", "transport")


def order_hash(res):
    return core.case_hash([(e[0], e[1]) for e in res.trace if e[0] in ("step_begin", "get_end")])


def shuffle_tree(tree, perm_keys, path=()):
    items = []
    gi = 0
    for i, ch in enumerate(tree):
        if isinstance(ch, str):
            items.append((perm_keys[hash_key(ch) % len(perm_keys)], ch))
        else:
            sub = shuffle_tree(ch, perm_keys, path + (gi,))
            items.append((perm_keys[(hash_key(str(path)) + gi) % len(perm_keys)], sub))
            gi += 1
    items.sort(key=lambda x: (x[0], str(x[1])))
    return [x[1] for x in items]


def hash_key(s):
    return sum(ord(c) * (i + 7) for i, c in enumerate(s))


def variants(case):
    """name -> (dimension, variant case)"""
    scn = case["scenario"]
    out = {}

    def mk(**kw):
        c = copy.deepcopy(case)
        c["schedule"] = kw.get("schedule", {})
        for k in ("world", "run"):
            if k in kw:
                c["scenario"][k].update(kw[k])
        if "tree" in kw:
            c["scenario"]["tree"] = kw["tree"]
        if "transport" in kw:
            for s in c["scenario"]["sims"]:
                t = kw["transport"](s["sid"])
                if t == "mem":
                    s["transport"] = "mem"
                else:
                    s.pop("transport", None)
        c.pop("variants", None)
        return c
    v = case.get("variants", {})
    out["lifo"] = ("schedule", mk(schedule={"policy": "lifo"}))
    out["picks"] = ("schedule", mk(schedule={"picks": v.get("picks", [1, 2, 0, 1])}))
    out["starve"] = ("schedule", mk(schedule={"policy": "starve", "arg": v.get("starve", "S0")}))
    out["prefer_get"] = ("schedule", mk(schedule={"policy": "prefer", "arg": "get"}))
    out["start_order"] = ("start_order", mk(tree=shuffle_tree(scn["tree"], v.get("perm", [2, 0, 1, 3]))))
    out["lazy_off"] = ("lazy", mk(run={"lazy_stepping": False}))
    out["cache_off"] = ("cache", mk(world={"cache": False}))
    out["debug_on"] = ("debug", mk(world={"debug": True}))
    out["all_mem"] = ("transport", mk(transport=lambda sid: "mem"))
    mixed = v.get("mixed", [1, 0, 1, 0, 1])
    sids = [s["sid"] for s in scn["sims"]]
    out["mixed"] = ("transport", mk(transport=lambda sid: "mem" if mixed[sids.index(sid) % len(mixed)] else "local"))
    return out


def monitor_flags(case, res):
    """(sim, per-sim step index) -> set of C03 signatures flagged by the monitor at that step"""
    from mvf import monitor
    from mvf.props import c03
    mon = monitor.Monitor(case["scenario"])
    viol = mon.run(res)
    flags = {}
    # map "S@L" -> index: recover from begun labels
    idx = {(s, L): i for s, ls in mon.begun.items() for i, L in enumerate(ls)}
    import re
    for vv in viol:
        if not vv["rule"].startswith("C03."):
            continue
        m = re.match(r"(\w+)@(\([^)]*\))", vv["msg"])
        if not m:
            continue
        L = tuple(int(x) for x in re.findall(r"-?\d+", m.group(2)))
        key = (m.group(1), idx.get((m.group(1), L)))
        flags.setdefault(key, set()).add(c03.sig(vv, case, res))
    return flags


KNOWN_C03 = {"C03.source_cache_holds_initial_data|cache=True": "F10",
             "C03.not_yet_due|same_time_subtier_only": "F12", "C03.stale|same_time_subtier_only": "F12",
             "C03.lost|same_time_subtier_displaced": "F12"}


def compare(base_case, base, name, dim, vcase, vres):
    """returns Failure or None"""
    bs, vs = core.jnorm(base.per_sim_sequences()), core.jnorm(vres.per_sim_sequences())
    same_outcome = (base.outcome == vres.outcome and (base.outcome != "exception" or
                                                      schedprops.exc_class(base) == schedprops.exc_class(vres)))
    if bs == vs and same_outcome:
        return None
    rule = f"C04.{dim}"
    # outcome differences that are other findings' signatures
    for r in (base, vres):
        if r.outcome == "exception" and "incomparable" in (r.exc_msg or ""):
            return Failure(rule, f"{rule}|explained_by_F05_incomparable", f"variant {name}: {r.exc_msg}")
    if not same_outcome and {base.outcome, vres.outcome} == {"returned", "deadlock"} and dim == "lazy":
        cls = schedprops.scenario_classes(base_case["scenario"])
        if "weak" in cls and "group_crossing" in cls:
            return Failure(rule, f"{rule}|explained_by_F04_lazy_wait_cycle", f"variant {name}: lazy deadlock")
    if not same_outcome:
        return Failure(rule, f"{rule}|outcome", f"variant {name}: base outcome {base.outcome} {base.exc_type} vs "
                                                f"{vres.outcome} {vres.exc_type}: {vres.exc_msg}")
    # earliest divergent steps
    div = []
    for sid in sorted(set(bs) | set(vs)):
        a, b = bs.get(sid, []), vs.get(sid, [])
        for i in range(max(len(a), len(b))):
            if i >= len(a) or i >= len(b) or a[i] != b[i]:
                t = min(a[i][0] if i < len(a) else 10 ** 9, b[i][0] if i < len(b) else 10 ** 9)
                div.append((t, sid, i, a[i] if i < len(a) else None, b[i] if i < len(b) else None))
                break
    tmin = min(d[0] for d in div)
    fb, fv = monitor_flags(base_case, base), monitor_flags(vcase, vres)
    expl = set()
    for t, sid, i, _, _ in div:
        if t == tmin:
            for fl in (fb, fv):
                for sg in fl.get((sid, i), ()):
                    if sg in KNOWN_C03:
                        expl.add(KNOWN_C03[sg])
    first = [d for d in div if d[0] == tmin][0]
    msg = (f"variant {name}: {first[1]} step #{first[2]} differs: base {first[3]} vs variant {first[4]}")
    if expl:
        return Failure(rule, f"{rule}|earliest_divergence_flagged_by_{'+'.join(sorted(expl))}", msg)
    return Failure(rule, f"{rule}|divergence", msg)


def check_case(case, acc, holder=None):
    if case.get("pair"):
        return check_schedule_pair({k: v for k, v in case.items() if k != "pair"}, acc, holder)
    base_case = copy.deepcopy(case)
    base_case.pop("variants", None)
    base_case["schedule"] = {}
    base = harness.run_case(base_case)
    if holder is not None:
        holder["res"] = base
    if base.outcome in ("rejected", "build_error"):
        acc.record(case, False, ["outcome." + base.outcome])
        return []
    fails = []
    orders = {order_hash(base)}
    only = case.get("only")
    for name, (dim, vcase) in variants(case).items():
        if only and name not in only:
            continue
        vres = harness.run_case(vcase)
        orders.add(order_hash(vres))
        f = compare(base_case, base, name, dim, vcase, vres)
        if f:
            f["case"] = case
            fails.append(f)
    nontrivial = len(orders) > 1 and bool(case["scenario"].get("conns"))
    acc.record(case, nontrivial, schedprops.scenario_classes(case["scenario"]) + schedprops.run_classes(base)
               + [f"distinct_orders={min(len(orders), 5)}"], sample=schedprops.abbreviate(case))
    return acc.triage(fails)


def check_schedule_pair(case, acc, holder=None):
    """used by the schedule enumeration: compare the run under case['schedule'] with the FIFO run"""
    base_case = copy.deepcopy(case)
    base_case["schedule"] = {}
    base = harness.run_case(base_case)
    vres = harness.run_case(case)
    if holder is not None:
        holder["res"] = vres
    fails = []
    f = compare(base_case, base, "enumerated", "schedule", case, vres)
    if f:
        f["case"] = dict(case, pair=True)
        fails.append(f)
    acc.record(case, order_hash(base) != order_hash(vres), ["enumerated"])
    return acc.triage(fails)


def shards(tier, seed):
    return schedprops.std_shards(PROP, tier, seed)


def shard(prop, tier, seed, shard, nshards):
    from hypothesis import strategies as st
    acc = core.Acc(PROP, budget_s=200 if tier == "quick" else 2400)

    @st.composite
    def hcase(draw):
        scn = draw(gen.scenarios(min_sims=2, sensitive=True, debug_ok=False, allow_mem=False, lazy=True, cache=True))
        sids = [s["sid"] for s in scn["sims"]]
        return {"scenario": scn, "variants": {
            "picks": draw(st.lists(st.integers(0, 4), min_size=3, max_size=30)),
            "starve": draw(st.sampled_from(sids)),
            "perm": draw(st.permutations([0, 1, 2, 3])),
            "mixed": draw(st.lists(st.integers(0, 1), min_size=2, max_size=5))}}

    core.drive(hcase(), check_case, acc, 120 if tier == "quick" else 2000, seed * 1000 + shard)

    # second family: controller + agents with asynchronous requests (set_data / get_data), also inside groups
    from mvf.props import c16

    @st.composite
    def acase(draw):
        nag = draw(st.integers(1, 2))
        scn = c16.build(nag, draw(st.lists(st.integers(1, 3), min_size=1, max_size=2)),
                        [draw(st.lists(st.integers(1, 3), min_size=1, max_size=2)) for _ in range(nag)],
                        [draw(st.lists(st.integers(0, 1), min_size=1, max_size=3)) for _ in range(nag)],
                        [draw(st.lists(st.sampled_from([0, 0, 1]), min_size=1, max_size=2)) for _ in range(nag)],
                        [0] * nag, a_type=draw(st.sampled_from(["time-based", "hybrid"])), until=draw(st.integers(2, 6)))
        grouped = draw(st.sampled_from([0, 1, 2]))
        if grouped == 1:
            scn["tree"] = [scn["tree"]]
        elif grouped == 2:
            scn["tree"] = [scn["tree"][:1], scn["tree"][1:]]
        sids = [s["sid"] for s in scn["sims"]]
        return {"scenario": scn, "variants": {
            "picks": draw(st.lists(st.integers(0, 4), min_size=3, max_size=20)),
            "starve": draw(st.sampled_from(sids)), "perm": draw(st.permutations([0, 1, 2, 3])),
            "mixed": draw(st.lists(st.integers(0, 1), min_size=2, max_size=4))}}

    core.drive(acase(), check_case, acc, 25 if tier == "quick" else 600, seed * 1000 + 300 + shard)
    micro = sorted(gen.micro_scenarios().items())
    runs, complete = 0, True
    for i, (name, scn) in enumerate(micro):
        if i % nshards != shard:
            continue
        s = copy.deepcopy(scn)
        for sm in s["sims"]:
            sm["beh"]["sensitive"] = True
        r, c = schedprops.enumerate_schedules(s, check_schedule_pair, acc, 2 if tier == "quick" else 3,
                                              max_runs=500 if tier == "quick" else 20000)
        # and the complete set of configuration variants once per micro-topology (also without input-sensitive
        # behaviours: they would hide shapes that depend on unchanged outputs)
        for scn_v in (s, scn):
            for f in check_case({"scenario": copy.deepcopy(scn_v), "variants": {
                    "picks": [1, 2, 0, 1, 2, 2, 1, 0], "starve": scn_v["sims"][0]["sid"], "perm": [2, 0, 1, 3],
                    "mixed": [1, 0, 1]}}, acc):
                if len(acc.failures) < 20:
                    acc.failures.append(f)
        runs += r
        complete = complete and c
    acc.extra["enumerated_schedule_runs"] = runs
    acc.extra["enumeration_complete"] = complete
    # long runs (DESIGN 10.7 round 5): the complete variant set once per long scenario with until <= 200
    for k, (name, scn) in enumerate(sorted(gen.long_scenarios().items())):
        if (scn["until"] > 200 and not scn.get("few_steps")) or (k + 9) % nshards != shard:
            continue
        for f in check_case({"scenario": copy.deepcopy(scn), "variants": {
                "picks": [1, 2, 0, 1, 2, 2, 1, 0], "starve": scn["sims"][1]["sid"], "perm": [1, 0, 2, 3],
                "mixed": [1, 0]}}, acc):
            if len(acc.failures) < 20:
                acc.failures.append(f)
    return acc

"""C15 API version adaptation."""
from __future__ import annotations

import asyncio
import copy
import warnings

import mosaik_api_v3

from mvf import core
from mvf.core import Failure

PROP = "C15"
LEVEL = "exploration"
RULE = ("complete table: version strings {absent, 1, 2, 2.0, 2.1, 2.2, 2.3, 2.1.9, 2.2.0, 3, 3.0, 3.0.1, 3.10, 4, "
        "4.0, 10.2} x explicit api_version {absent, equal, different} x stub kind {in-process with v3 signatures, "
        "in-process with v2 signatures, in-process mixed (init only / step only), an old-style subclass of a v3-style "
        "class and an upgraded subclass of an old-style class (an instance of the parent class is started first), "
        "remote raw-protocol stub over the in-memory transport} x type given/absent; each admissible stub then runs in a small scenario (producer -> "
        "stub), calls five extra methods (names incl. setup, done, set) and its literal requests are recorded. Oracle: step has 2 positional arguments iff version < 3, "
        "setup_done iff version >= 2.2, time_resolution to an in-process init iff its signatures accept it, missing "
        "type => time-based, ScenarioError at start iff version >= 4 / explicit mismatch / in-process v2 signatures "
        "claiming >= 3; differential: (time, inputs) sequence equal to the v3 stub's. non-trivial = version < 3 with "
        "a step executed, or a rejected start; distinct = distinct table rows")
RULE += '; every in-process row also as the second of two instances sharing one meta dict'
ASSUMPTIONS = [
    "numeric dotted version strings only; 'different' explicit versions differ numerically (not '2' vs '2.0')",
    "in-process stubs announcing < 3 accept step with two or three arguments",
]
VERSIONS = [None, "1", "2", "2.0", "2.1", "2.2", "2.3", "2.1.9", "2.2.0", "3", "3.0", "3.0.1", "3.10", "4", "4.0",
            "10.2"]
KINDS = ["inproc_v3", "inproc_v2", "inproc_init_only", "inproc_step_only", "remote_raw", "inproc_v2_child_of_v3",
         "inproc_v3_child_of_v2"]
LOG = []


def exhaustive(tier):
    return True


def vlist(v):
    return [1] if v is None else [int(x) for x in v.split(".")]


EXTRA = ["setup", "done", "set", "configure_grid", "step_size"]


def make_meta(version, with_type):
    m = {"models": {"M": {"public": True, "params": [], "attrs": ["a", "b"]}}, "extra_methods": list(EXTRA)}
    if version is not None:
        m["api_version"] = version
    if with_type:
        m["type"] = "time-based"
    return m


SHARED_META = {}


class _Base(mosaik_api_v3.Simulator):
    def __init__(self):
        super().__init__({})
        self.t = None

    def _init(self, sid, time_resolution, version, with_type, shared=False):
        self.sid = sid
        LOG.append((sid, "init", {"time_resolution": time_resolution}))
        if shared:
            # the common `return META` style: every instance of the class returns the same module-level dict object
            self.meta = SHARED_META.setdefault((version, with_type), make_meta(version, with_type))
        else:
            self.meta = make_meta(version, with_type)
        return self.meta

    def create(self, num, model, **kw):
        return [{"eid": f"e{i}", "type": model} for i in range(num)]

    def setup_done(self):
        LOG.append((self.sid, "setup_done", ()))

    def _step(self, args):
        LOG.append((self.sid, "step", copy.deepcopy(args)))
        self.t = args[0]
        return args[0] + 1

    def get_data(self, outputs):
        return {e: {a: f"{self.sid}.{a}@{self.t}" for a in attrs} for e, attrs in outputs.items()}

    def _extra(self, name, args, kwargs):
        LOG.append((self.sid, "extra", (name, list(args), dict(kwargs))))
        return f"{name}:{list(args)}"


for _name in EXTRA:
    def _mk(n):
        def meth(self, *args, **kwargs):
            return self._extra(n, args, kwargs)
        meth.__name__ = n
        return meth
    setattr(_Base, _name, _mk(_name))


class StubV3(_Base):
    def init(self, sid, time_resolution="MISSING", version=None, with_type=True, shared=False):
        return self._init(sid, time_resolution, version, with_type, shared)

    def step(self, time, inputs, max_advance="MISSING"):
        return self._step((time, inputs) if max_advance == "MISSING" else (time, inputs, max_advance))


class StubV2(_Base):
    def init(self, sid, version=None, with_type=True, shared=False):
        return self._init(sid, "MISSING", version, with_type, shared)

    def step(self, time, inputs, *more):
        return self._step((time, inputs) + tuple(more))


class StubInitOnly(_Base):          # init takes time_resolution (optional), step has no max_advance
    def init(self, sid, time_resolution="MISSING", version=None, with_type=True, shared=False):
        return self._init(sid, time_resolution, version, with_type, shared)

    def step(self, time, inputs, *more):
        return self._step((time, inputs) + tuple(more))


class StubStepOnly(_Base):          # step takes max_advance (optional), init has no time_resolution
    def init(self, sid, version=None, with_type=True, shared=False):
        return self._init(sid, "MISSING", version, with_type, shared)

    def step(self, time, inputs, max_advance="MISSING"):
        return self._step((time, inputs) if max_advance == "MISSING" else (time, inputs, max_advance))


class StubV2ChildOfV3(StubV3):      # a subclass of a v3-style simulator that overrides init/step in the old style
    def init(self, sid, version=None, with_type=True, shared=False):
        return self._init(sid, "MISSING", version, with_type, shared)

    def step(self, time, inputs, *more):
        return self._step((time, inputs) + tuple(more))


class StubV3ChildOfV2(StubV2):      # an upgraded subclass of an old-style simulator
    def init(self, sid, time_resolution="MISSING", version=None, with_type=True, shared=False):
        return self._init(sid, time_resolution, version, with_type, shared)

    def step(self, time, inputs, max_advance="MISSING"):
        return self._step((time, inputs) if max_advance == "MISSING" else (time, inputs, max_advance))


async def start_raw(mosaik_config, sim_name, sim_config, mosaik_remote):
    """raw protocol stub: answers on the wire, records the literal requests"""
    from mosaik.proxies import RemoteProxy
    from mosaik_api_v3.connection import Channel, EndOfRequests
    from mvf.harness import mem_pair
    loop = asyncio.get_running_loop()
    (ra, wa, ta), (rb, wb, tb) = mem_pair(loop, sim_name)
    state = {"sid": None, "t": None}

    async def simside():
        ch = Channel(rb, wb)
        try:
            while True:
                req = await ch.next_request()
                func, args, kwargs = req.content
                if func == "init":
                    state["sid"] = args[0]
                    LOG.append((args[0], "init", dict(kwargs)))
                    await req.set_result(make_meta(kwargs.get("version"), kwargs.get("with_type", True)))
                elif func == "create":
                    await req.set_result([{"eid": f"e{i}", "type": args[1]} for i in range(args[0])])
                elif func == "setup_done":
                    LOG.append((state["sid"], "setup_done", ()))
                    await req.set_result(None)
                elif func == "step":
                    LOG.append((state["sid"], "step", tuple(copy.deepcopy(args))))
                    state["t"] = args[0]
                    await req.set_result(args[0] + 1)
                elif func == "get_data":
                    await req.set_result({e: {a: f"{state['sid']}.{a}@{state['t']}" for a in attrs}
                                          for e, attrs in args[0].items()})
                elif func == "stop":
                    break
                elif func in EXTRA:
                    LOG.append((state["sid"], "extra", (func, list(args), dict(kwargs))))
                    await req.set_result(f"{func}:{list(args)}")
                else:
                    await req.set_result(None)
        except (EndOfRequests, asyncio.CancelledError, Exception):  # noqa
            pass
        finally:
            try:
                await ch.close()
            except BaseException:  # noqa
                pass
    TASKS.append(loop.create_task(simside()))
    return RemoteProxy(Channel(ra, wa, name=sim_name), mosaik_remote)


TASKS = []
CLASSES = {"inproc_v3": "StubV3", "inproc_v2": "StubV2", "inproc_init_only": "StubInitOnly",
           "inproc_step_only": "StubStepOnly", "inproc_v2_child_of_v3": "StubV2ChildOfV3",
           "inproc_v3_child_of_v2": "StubV3ChildOfV2"}
# for the *_child_of_* kinds an instance of the parent class is started first, in the same world
PARENT = {"inproc_v2_child_of_v3": ("StubV3", "3.0"), "inproc_v3_child_of_v2": ("StubV2", "2.2")}


def run_row(row, stub_version=None):
    """row = {version, explicit, kind, with_type}; returns dict(outcome, msg, requests)"""
    import mosaik
    from mosaik.exceptions import ScenarioError
    from mosaik.simmanager import StarterCollection
    from loguru import logger
    from mvf import simple_sim, harness
    logger.remove()
    warnings.simplefilter("ignore")
    sc = StarterCollection()
    sc["mvfraw"] = start_raw
    LOG.clear()
    del TASKS[:]
    version = row["version"]
    cfg = {"python": f"mvf.props.c15:{CLASSES[row['kind']]}"} if row["kind"] != "remote_raw" else {"mvfraw": "raw"}
    if row["explicit"] == "equal":
        cfg["api_version"] = version if version is not None else "1"
    elif row["explicit"] == "different":
        cfg["api_version"] = "2.4" if vlist(version)[0] != 2 else "3.1"
    sim_cfg = {"Stub": cfg, "Meta": {"python": "mvf.simple_sim:MetaSim"}}
    if row["kind"] in PARENT:
        sim_cfg["Parent"] = {"python": f"mvf.props.c15:{PARENT[row['kind']][0]}"}
    w = simple_sim.quiet_world(sim_cfg)
    loop = w.loop
    out = {"outcome": None, "msg": "", "requests": []}
    import contextlib
    import io
    try:
        try:
            with contextlib.redirect_stdout(io.StringIO()):
                if row["kind"] in PARENT:
                    w.start("Parent", sim_id="Q", version=PARENT[row["kind"]][1], with_type=True)
                skw = {}
                if row.get("twin"):
                    # a first instance of the very same simulator (same class, same version) in the same world; both
                    # return the same meta dict object from init()
                    SHARED_META.clear()
                    skw["shared"] = True
                    try:
                        w.start("Stub", sim_id="S0", version=version, with_type=row["with_type"], **skw)
                    except ScenarioError:
                        pass
                fac = w.start("Stub", sim_id="S", version=version, with_type=row["with_type"], **skw)
        except ScenarioError as e:
            out["outcome"], out["msg"] = "rejected", str(e)
            return out
        except Exception as e:  # noqa
            out["outcome"], out["msg"] = "error", f"{type(e).__name__}: {e}"
            return out
        out["type"] = fac.type
        pmeta = {"api_version": "3.0", "type": "time-based",
                 "models": {"M": {"public": True, "params": [], "attrs": ["a", "b"]}}}
        prod = w.start("Meta", sim_id="P", meta=pmeta)
        out["extra_results"] = {}
        for i, name in enumerate(EXTRA):
            try:
                out["extra_results"][name] = getattr(fac, name)(i, key=name)
            except Exception as e:  # noqa
                out["extra_results"][name] = f"EXC {type(e).__name__}: {e}"
        try:
            e_s, e_p = fac.M.create(1)[0], prod.M.create(1)[0]
            w.connect(e_p, e_s, "a")
            simple_sim.guarded_run(w, until=3, print_progress=False)
            out["outcome"] = "ran"
        except harness.HarnessAbort as e:
            out["outcome"], out["msg"] = "run_error", f"run() ended in {e}"
        except Exception as e:  # noqa
            out["outcome"], out["msg"] = "run_error", f"{type(e).__name__}: {e}"
        out["requests"] = [x for x in LOG if x[0] == "S"]
        return out
    finally:
        simple_sim.close_world(w)
        if not loop.is_closed():
            for t in TASKS:
                t.cancel()
            loop.close()


def expected(row):
    v = vlist(row["version"])
    forced_old = row["kind"] in ("inproc_v2", "inproc_init_only", "inproc_step_only", "inproc_v2_child_of_v3")
    reject = v >= [4] or row["explicit"] == "different" or (forced_old and v >= [3])
    if not reject and v >= [3] and not row["with_type"]:
        return {"reject": None}          # v3 without a type: not covered by the statement (recorded only)
    return {"reject": reject, "step_args": 2 if v < [3] else 3, "setup_done": v >= [2, 2],
            # an old-style simulator whose init *can* take time_resolution (StubInitOnly) may or may not receive it: the
            # statement only forbids passing it to an init that cannot take it (StubV2, StubStepOnly, StubV2ChildOfV3:
            # passing it there makes start() fail, which is reported as rejected_valid)
            "time_resolution": (None if row["kind"] == "inproc_init_only" else
                                ((not forced_old) if row["kind"] != "remote_raw" else True))}


def check_row(row, ref_seq):
    exp = expected(row)
    res = run_row(row)
    case = {"kind": "row", "row": row}
    fails = []
    if exp["reject"] is None:
        return fails, res, "not_judged"
    shape = f"{row['kind']}|v={row['version']}|explicit={row['explicit']}"
    if exp["reject"]:
        if res["outcome"] != "rejected":
            fails.append(Failure("C15.not_rejected", f"C15.not_rejected|{shape}",
                                 f"start() must raise ScenarioError for {row} but: {res['outcome']} {res['msg'][:200]}", case))
        return fails, res, "rejected"
    if res["outcome"] == "rejected" or res["outcome"] == "error":
        fails.append(Failure("C15.rejected_valid", f"C15.rejected_valid|{shape}",
                             f"start() failed for an admissible simulator {row}: {res['msg'][:300]}", case))
        return fails, res, "rejected"
    if res["outcome"] != "ran":
        fails.append(Failure("C15.run_error", f"C15.run_error|{shape}", f"{row}: {res['msg'][:300]}", case))
        return fails, res, "run_error"
    reqs = res["requests"]
    steps = [r for r in reqs if r[1] == "step"]
    if not steps:
        fails.append(Failure("C15.no_steps", f"C15.no_steps|{shape}", f"{row}: the stub was never stepped", case))
    for r in steps:
        if len(r[2]) != exp["step_args"]:
            fails.append(Failure("C15.step_args", f"C15.step_args|{shape}",
                                 f"{row}: step received {len(r[2])} positional arguments {r[2]}, expected "
                                 f"{exp['step_args']}", case))
            break
    got_setup = any(r[1] == "setup_done" for r in reqs)
    if got_setup != exp["setup_done"]:
        fails.append(Failure("C15.setup_done", f"C15.setup_done|{shape}",
                             f"{row}: setup_done received={got_setup}, expected {exp['setup_done']}", case))
    init = [r for r in reqs if r[1] == "init"][0]
    got_tr = init[2].get("time_resolution", "MISSING") != "MISSING"
    if exp["time_resolution"] is not None and got_tr != exp["time_resolution"]:
        fails.append(Failure("C15.time_resolution", f"C15.time_resolution|{shape}",
                             f"{row}: init received time_resolution={got_tr}, expected {exp['time_resolution']}", case))
    if not row["with_type"] and res.get("type") != "time-based":
        fails.append(Failure("C15.default_type", f"C15.default_type|{shape}",
                             f"{row}: missing type was treated as {res.get('type')}", case))
    # extra methods are requests like any other: every call reaches the simulator with its arguments and the
    # result comes back ("apart from that, it sees the same ... as a current-version simulator")
    got_extra = [r[2] for r in reqs if r[1] == "extra"]
    for i, name in enumerate(EXTRA):
        want_call = (name, [i], {"key": name})
        if not any((g[0], list(g[1]), dict(g[2])) == want_call for g in got_extra):
            fails.append(Failure("C15.extra_method", f"C15.extra_method|lost|{shape}",
                                 f"{row}: extra method {name}({i}, key={name!r}) never reached the simulator "
                                 f"(received: {got_extra})", case))
            break
        if res.get("extra_results", {}).get(name) != f"{name}:[{i}]":
            fails.append(Failure("C15.extra_method", f"C15.extra_method|result|{shape}",
                                 f"{row}: extra method {name} returned {res.get('extra_results', {}).get(name)!r}", case))
            break
    seq = [[r[2][0], r[2][1]] for r in steps]
    if ref_seq is not None and core.jnorm(seq) != core.jnorm(ref_seq):
        fails.append(Failure("C15.differs_from_v3", f"C15.differs_from_v3|{shape}",
                             f"{row}: (time, inputs) sequence {seq} differs from the v3 simulator's {ref_seq}", case))
    return fails, res, "ran"


def reference_sequence():
    res = run_row({"version": "3.0", "explicit": "absent", "kind": "inproc_v3", "with_type": True})
    return [[r[2][0], r[2][1]] for r in res["requests"] if r[1] == "step"]


_REF = {}


def check_case(case, acc):
    if "ref" not in _REF:
        _REF["ref"] = reference_sequence()
        if len(_REF["ref"]) != 3:
            raise core.HarnessError(f"reference v3 run is wrong: {_REF['ref']}")
    row = case["row"]
    fails, res, cls = check_row(row, _REF["ref"])
    v = vlist(row["version"])
    nontrivial = (v < [3] and cls == "ran") or cls == "rejected"
    acc.record(case, nontrivial, ["kind." + row["kind"], "result." + cls], sample={"row": row, "requests": [
        [r[1], list(r[2]) if not isinstance(r[2], dict) else r[2]] for r in res.get("requests", [])][:6]})
    return acc.triage(fails)


def rows():
    for version in VERSIONS:
        for explicit in ("absent", "equal", "different"):
            for kind in KINDS:
                for with_type in (True, False):
                    yield {"version": version, "explicit": explicit, "kind": kind, "with_type": with_type}
                    if kind != "remote_raw" and explicit != "different":
                        # the second of two instances of the same in-process simulator, whose init() both return
                        # one module-level meta dict
                        yield {"version": version, "explicit": explicit, "kind": kind, "with_type": with_type,
                               "twin": True}


def shards(tier, seed):
    n = core.NPROC
    return [dict(prop=PROP, tier=tier, seed=seed, shard=i, nshards=n) for i in range(n)]


def shard(prop, tier, seed, shard, nshards):
    acc = core.Acc(PROP)
    for i, row in enumerate(rows()):
        if i % nshards != shard:
            continue
        for f in check_case({"kind": "row", "row": row}, acc):
            if len(acc.failures) < 30:
                acc.failures.append(f)
    # Hypothesis: other numeric versions
    from hypothesis import strategies as st

    @st.composite
    def hrow(draw):
        parts = [draw(st.integers(1, 5))] + [draw(st.integers(0, 12)) for _ in range(draw(st.integers(0, 2)))]
        return {"kind": "row", "row": {"version": ".".join(map(str, parts)),
                                       "explicit": draw(st.sampled_from(["absent", "equal", "different"])),
                                       "kind": draw(st.sampled_from(KINDS)), "with_type": draw(st.booleans()),
                                       "twin": draw(st.booleans())}}

    core.drive(hrow(), check_case, acc, 40 if tier == "quick" else 2000, seed * 1000 + shard)
    return acc

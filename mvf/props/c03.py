"""C03 Data-flow fidelity of step inputs."""
from __future__ import annotations

from mvf import core, gen, schedprops

PROP = "C03"
LEVEL = "exploration"
RULE = ("Hypothesis-generated (scenario, schedule) cases biased to data shapes (producers slower/faster than "
        "consumers, shift 1-2, several consumers of one port, events and measurements into one entity, future "
        "output times, cache and lazy on/off); at every step() the history monitor rebuilds the expected inputs "
        "from the get_data() replies observed so far (persistent: most recent value due, else initial data, else "
        "None; event: every undelivered value due, exactly once) and compares them with the observed inputs slot "
        "by slot (tokens identify the producing step). non-trivial = a consumer step whose expected inputs needed "
        "memory/buffering (a value not produced by the immediately preceding step, or several events, or initial "
        "data); distinct = distinct case hashes"
        "; in addition six long runs (until 80 / 120 / 1100, strides of hundreds, 24 simulators) under FIFO, LIFO and a starved simulator, and the "
        "extreme policies (LIFO, steps first, get_data first, each simulator starved) before every schedule enumeration")
RULE += '; value shapes (objects, lists, falsy values, small repeating domains), World.get_data before run(), connect inside open groups, child entities of a non-public model, async_requests flags'
ASSUMPTIONS = [
    "payloads are opaque JSON tokens; one connection per input slot (source entity, destination entity, attribute)",
    "persistent attributes are present in every reply; future `time` only from simulators without connected "
    "persistent outputs; initial data on event connections is not judged (DESIGN 2.3)",
]


def sig(v, case, res):
    """narrow signatures: rule + the shape that triggers it"""
    f = v["feat"]
    rule = v["rule"]
    kind = str(f.get("kind"))
    if rule == "C03.duplicated" and f.get("init") and f.get("persistent") is False and f.get("trigger") is False:
        return "C03.duplicated|event_conn_with_initial_data_into_non_trigger"
    if (rule in ("C03.foreign_initial_data", "C03.none_instead_of_value", "C03.initial_data_instead_of_value")
            and f.get("persistent") and f.get("src_cache_init")):
        return "C03.source_cache_holds_initial_data|cache=True"
    if rule in ("C03.not_yet_due", "C03.stale") and f.get("subtier_only"):
        return f"{rule}|same_time_subtier_only"
    if rule == "C03.lost" and f.get("early_same_time"):
        return "C03.lost|same_time_subtier_displaced"
    return f"{rule}|{kind}|cache={f.get('cache')}|persistent={f.get('persistent')}|init={f.get('init')}"


def analyse(case, res):
    if res.outcome in ("rejected", "build_error"):
        return [], False, []
    fails, mon, other = schedprops.monitor_failures(case, res, "C03", sig)
    extra = ["aborted_by_other_property"] if schedprops.aborted_by_other(res) else []
    st = mon.stats
    nontrivial = st["memory_inputs"] > 0 or st["multi_event_slot"] > 0 or st["initial_data_used"] > 0
    for k in ("memory_inputs", "multi_event_slot", "initial_data_used", "event_inputs"):
        if st[k]:
            extra.append(k)
    return fails, nontrivial, extra


check_case = schedprops.make_check_case(analyse)


def shards(tier, seed):
    return schedprops.std_shards(PROP, tier, seed)


def shard(prop, tier, seed, shard, nshards):
    acc = core.Acc(PROP, budget_s=150 if tier == "quick" else 1500)
    n = 300 if tier == "quick" else 15000
    core.drive(gen.cases(min_sims=2, max_conns=10), check_case, acc, n, seed * 1000 + shard)
    if tier == "thorough":
        # a minority of oversized scenarios (up to 7 simulators, until 12, 12 connections)
        core.drive(gen.cases(min_sims=4, max_sims=7, max_until=12, max_conns=12, debug_ok=False), check_case, acc,
                   n // 8, seed * 1000 + 900 + shard)
    micro = sorted(gen.micro_scenarios().items())
    runs, complete = 0, True
    for i, (name, scn) in enumerate(micro):
        if i % nshards != shard:
            continue
        for cache in (True, False):
            s = dict(scn, world={"cache": cache})
            r, c = schedprops.enumerate_schedules(s, check_case, acc, 1 if tier == "quick" else 3,
                                                  max_runs=600 if tier == "quick" else 30000)
            runs += r
            complete = complete and c
    acc.extra["enumerated_schedule_runs"] = runs
    acc.extra["enumeration_complete"] = complete
    schedprops.run_long(check_case, acc, shard, nshards)
    return acc

"""C01 Causal input readiness (conservative synchronisation)."""
from __future__ import annotations

from mvf import core, gen, schedprops

PROP = "C01"
LEVEL = "exploration"
RULE = ("Hypothesis-generated (scenario, schedule) cases (all connection kinds, group trees, local/in-memory remote "
        "transport, lazy and cache on/off) under the controlled loop with random, adversarial (lifo, starve one "
        "simulator, prefer step/get replies) and FIFO-deviation-bounded exhaustive schedules; the history monitor "
        "checks on the global order of step() begins and get_data() returns, with its own reference delays, that no "
        "consumer begins a step while a producer is in flight or has a demanded step whose delayed output time is "
        "at or before it, and that no producer steps/produces for a time the consumer has already begun. "
        "non-trivial = >= 2 connected simulators and (>= 2 replies pending at once or a non-FIFO release); "
        "distinct = distinct case hashes"
        "; in addition six long runs (until 80 / 120 / 1100, strides of hundreds, 24 simulators) under FIFO, LIFO and a starved simulator, and the "
        "extreme policies (LIFO, steps first, get_data first, each simulator starved) before every schedule enumeration")
ASSUMPTIONS = [
    "scripted simulators; reference delays computed from the case's group tree (DESIGN 2.3)",
    "only demands known from replies already observed are counted as outstanding",
]


def analyse(case, res):
    if res.outcome in ("rejected", "build_error"):
        return [], False, []
    fails, mon, other = schedprops.monitor_failures(
        case, res, "C01", lambda v, c, r: f"{v['rule']}|{v['feat'].get('kind')}")
    extra = ["aborted_by_other_property"] if schedprops.aborted_by_other(res) else []
    connected = any(c["src"] != c["dst"] for c in case["scenario"].get("conns", []))
    nontrivial = connected and (res.stats.get("max_pending", 0) >= 2 or res.stats.get("nonfifo", 0) > 0)
    return fails, nontrivial, extra


check_case = schedprops.make_check_case(analyse)


def shards(tier, seed):
    return schedprops.std_shards(PROP, tier, seed)


def shard(prop, tier, seed, shard, nshards):
    acc = core.Acc(PROP, budget_s=150 if tier == "quick" else 1500)
    n = 250 if tier == "quick" else 10000
    core.drive(gen.cases(min_sims=2), check_case, acc, n, seed * 1000 + shard)
    if tier == "thorough":
        # a minority of oversized scenarios (up to 7 simulators, until 12, 12 connections)
        core.drive(gen.cases(min_sims=4, max_sims=7, max_until=12, max_conns=12, debug_ok=False), check_case, acc,
                   n // 8, seed * 1000 + 900 + shard)
    micro = sorted(gen.micro_scenarios().items())
    runs, complete = 0, True
    for i, (name, scn) in enumerate(micro):
        if i % nshards != shard:
            continue
        for lazy in (True, False):
            s = dict(scn, run={"lazy_stepping": lazy})
            r, c = schedprops.enumerate_schedules(s, check_case, acc, 2 if tier == "quick" else 3,
                                                  max_runs=800 if tier == "quick" else 30000)
            runs += r
            complete = complete and c
    acc.extra["enumerated_schedule_runs"] = runs
    acc.extra["enumeration_complete"] = complete
    schedprops.run_long(check_case, acc, shard, nshards)
    return acc

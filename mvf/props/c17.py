"""C17 Real-time pacing and external events (on a virtual clock)."""
from __future__ import annotations

import copy

from mvf import core, gen, harness, schedprops
from mvf.core import Failure
from mvf.gen import _sim, _c

PROP = "C17"
LEVEL = "exploration"
RULE = ("Hypothesis-generated real-time cases on a virtual clock (loop.time, the selector and mosaik's perf_counter "
        "are substituted): rt_factor in {0.1, 0.25, 0.3, 0.5, 1, 2} x time_resolution in {0.5, 1, 2}; 1-3 simulators, "
        "also connected; per-step durations (0, fractions and multiples of the period); timer jitter >= 0; external "
        "set_event(t) calls injected at generated virtual instants (future t < until, t >= until, and outside "
        "real-time mode); rt_strict on/off. Oracle on virtual time: no step for t begins before "
        "rt_factor*time_resolution*(t-1) after the start; a compliant run completes; with all durations 0 no 'too "
        "slow' report; set_event(t<until) => a step at t, t>=until => warning and no step, non-rt => error; "
        "rt_strict=True equals the non-strict run up to the first too-slow report, then RuntimeError. non-trivial "
        "= >= 2 steps per simulator and (a connected pair or an injected event or a non-zero duration); distinct = "
        "distinct case hashes")
ASSUMPTIONS = [
    "pacing is judged on the virtual clock; OS scheduling jitter is a generated non-negative delay of timer wake-ups",
    "set_event is issued through the simulator's MosaikRemote, as mosaik_api_v3's event_setter does",
]


def build(n, rtf, tres, steps, durs, connected, until, strict=False, jitter=(), externals=(), ev_type="time-based"):
    sims = []
    for i in range(n):
        s = _sim(f"S{i}", "time-based", steps=steps[i])
        s["beh"]["dur"] = durs[i]
        sims.append(s)
    conns = []
    if connected and n >= 2:
        for i in range(n - 1):
            conns.append(_c(f"S{i}", "po", f"S{i + 1}", "mi"))
    tree = [s["sid"] for s in sims]
    if externals:
        e = _sim("E", "event-based", steps=[0], emit=[0])
        e["set_events"] = True
        sims.append(e)
        tree.append("E")
    return {"scenario": {"tree": tree, "sims": sims, "conns": conns, "initial_events": {}, "until": until,
                         "world": {"cache": True, "time_resolution": tres},
                         "run": {"lazy_stepping": True, "rt_factor": rtf, "rt_strict": strict}},
            "schedule": {"timed": True, "jitter": list(jitter)},
            "externals": [dict(x) for x in externals]}


def too_slow_logs(res):
    return [(res.logs.t[i], m) for i, (lv, m) in enumerate(res.logs) if "too slow" in m]


def analyse(case, res):
    scn = case["scenario"]
    run = scn["run"]
    rtf, tres, until = run.get("rt_factor"), scn["world"].get("time_resolution", 1.0), scn["until"]
    fails = []
    if rtf is None:
        return analyse_non_rt(case, res)
    period = rtf * tres
    jitter = any(j > 0 for j in case["schedule"].get("jitter", []))
    durs_zero = all(not any(s["beh"].get("dur", [0])) for s in scn["sims"])
    # start of the run on the virtual clock = first setup_done
    t0 = None
    for i, e in enumerate(res.trace):
        if e[0] == "setup_done":
            t0 = res.trace.t[i]
            break
    slow = too_slow_logs(res)
    connected = bool(scn.get("conns"))
    res._t0 = t0
    # On a clock with non-dyadic periods (0.1, 0.3) float rounding alone can make a step end 1e-14 s "late";
    # such reports are counted as float noise, not judged (the dyadic cases carry the claim for jitter = 0).
    noise = []
    if not jitter:
        import re
        for tt, m in slow:
            mm = re.search(r"- ([0-9.e+-]+)s behind", m)
            if mm and float(mm.group(1)) < 1e-9:
                noise.append((tt, m))
        slow = [x for x in slow if x not in noise]
        if res.outcome == "exception" and res.is_a("RuntimeError") and durs_zero and t0 is not None:
            ends = [(res.trace.t[i] - t0, e) for i, e in enumerate(res.trace) if e[0] == "step_end"]
            last_begin = [e for e in res.trace if e[0] == "step_begin"][-1]
            if ends and abs(ends[-1][0] - period * last_begin[2]) < 1e-9:
                return [], False, ["float_noise_strict"]
    if res.outcome in ("deadlock", "livelock", "runaway"):
        fails.append(Failure("C17.internal_error", f"C17.internal_error|{res.outcome}", f"real-time run ended in {res.outcome}"))
    elif res.outcome == "exception":
        # the statement fixes the type (RuntimeError) of the strict report, not its wording
        if res.is_a("RuntimeError") and (run.get("rt_strict") or "too slow" in (res.exc_msg or "")):
            if not run.get("rt_strict"):
                fails.append(Failure("C17.strict", "C17.strict|raised_without_strict", "RuntimeError without rt_strict"))
            elif durs_zero:
                fails.append(Failure("C17.false_too_slow", sig_slow(jitter, connected, case, res),
                                     f"rt_strict run raised '{res.exc_msg}' although every simulator answers instantly"))
        else:
            fails.append(Failure("C17.internal_error", f"C17.internal_error|{schedprops.exc_class(res)}",
                                 f"real-time run raised {res.exc_type}: {res.exc_msg}"))
    for i, e in enumerate(res.trace):
        if e[0] == "step_begin" and t0 is not None:
            at = res.trace.t[i] - t0
            if at + 1e-9 < period * (e[2] - 1):
                fails.append(Failure("C17.too_early", "C17.too_early",
                                     f"{e[1]} began its step for t={e[2]} {at:.4f}s after the start, before "
                                     f"rt_factor*time_resolution*(t-1) = {period * (e[2] - 1):.4f}s"))
                break
    if durs_zero and slow and not run.get("rt_strict"):
        behind = slow[0][1]
        fails.append(Failure("C17.false_too_slow", sig_slow(jitter, connected, case, res, at=slow[0][0]),
                             f"every simulator answers instantly (virtual durations 0) but mosaik reports: {behind[:120]}"))
    # external events
    for x in case.get("externals", []):
        t = x["event"]
        fired = [i for i, e in enumerate(res.trace) if e[0] == "ext_set_event" and e[2] == t]
        if not fired:
            continue
        i0 = fired[0]
        fire_at = res.trace.t[i0] - t0
        oks = any(e[0] == "ext_set_event_ok" and e[2] == t for e in res.trace)
        errs = [e for e in res.trace if e[0] == "ext_set_event_err" and e[2] == t]
        stepped = any(e[0] == "step_begin" and e[1] == x["sim"] and e[2] == t for e in res.trace[i0:])
        in_future = fire_at < period * t - 1e-9     # t strictly in the future at that instant
        if errs:
            fails.append(Failure("C17.event", "C17.event|error_in_rt_mode", f"set_event({t}) failed: {errs[0][3:]}"))
        elif t >= until:
            warned = any(e[0] == "ext_set_event_ok" and e[2] == t and len(e) > 3 and e[3] for e in res.trace)
            if stepped or not warned:
                fails.append(Failure("C17.event", "C17.event|after_end",
                                     f"set_event({t}) with until={until}: stepped={stepped}, warning={warned}"))
        elif in_future and res.outcome == "returned" and not stepped:
            fails.append(Failure("C17.event", "C17.event|no_step",
                                 f"set_event({t}) issued {fire_at:.3f}s after the start (t is in the future) caused no step at {t}"))
    nsteps = {}
    for e in res.trace:
        if e[0] == "step_begin":
            nsteps[e[1]] = nsteps.get(e[1], 0) + 1
    nontrivial = bool(nsteps) and min(nsteps.values()) >= 2 and (connected or bool(case.get("externals")) or not durs_zero)
    extra = (["float_noise"] if noise else []) + ["jitter" if jitter else "no_jitter", "dur0" if durs_zero else "durations", f"slow_reports={min(len(slow), 3)}"]
    # rt_strict differential
    if not run.get("rt_strict") and res.outcome == "returned" and case.get("strict_diff", True) and not noise:
        c2 = copy.deepcopy(case)
        c2["scenario"]["run"]["rt_strict"] = True
        r2 = harness.run_case(c2)
        if not slow:
            if r2.outcome != "returned" or core.jnorm(r2.per_sim_sequences()) != core.jnorm(res.per_sim_sequences()):
                fails.append(Failure("C17.strict", "C17.strict|differs_without_report",
                                     f"no too-slow report, but the rt_strict run: {r2.outcome} {r2.exc_type} {r2.exc_msg}"))
        else:
            if not (r2.outcome == "exception" and r2.is_a("RuntimeError")):
                fails.append(Failure("C17.strict", "C17.strict|no_runtime_error",
                                     f"the non-strict run reports too slow, the rt_strict run ended with {r2.outcome} {r2.exc_type}"))
            else:
                # prefix: every step of the strict run is a step of the non-strict run, in order per simulator
                a, b = core.jnorm(res.per_sim_sequences()), core.jnorm(r2.per_sim_sequences())
                for sid, seq in b.items():
                    if a.get(sid, [])[:len(seq)] != seq:
                        fails.append(Failure("C17.strict", "C17.strict|not_a_prefix",
                                             f"{sid}: strict run {seq} is not a prefix of the non-strict run {a.get(sid)}"))
                        break
        extra.append("strict_diff")
    return fails, nontrivial, extra


def boundary_release(case, res, t0, at=None):
    """The step that was reported began at its deadline (within the timer latencies that were applied, i.e. it
    was released by a polling wake-up there) and ended less than 1e-6 s after it: the lateness comes from
    mosaik's period-granular polling (waits that end between two wake-ups are noticed up to one period late, such
    delays add up along a chain of connected simulators), not from the simulators."""
    scn = case["scenario"]
    period = scn["run"]["rt_factor"] * scn["world"].get("time_resolution", 1.0)
    begins = [(res.trace.t[i] - t0, e) for i, e in enumerate(res.trace) if e[0] == "step_begin"]
    ends = [(res.trace.t[i] - t0, e) for i, e in enumerate(res.trace) if e[0] == "step_end"]
    if at is not None:
        ends = [x for x in ends if x[0] <= at - t0 + 1e-12]
    if not begins or not ends:
        return False
    end_at, e_end = ends[-1]
    b = [x for x in begins if x[1][1] == e_end[1] and x[0] <= end_at][-1]
    began_at, t = b[0], b[1][2]
    jit = sum(case["schedule"].get("jitter", [])[:getattr(res, "jitter_used", 0)])
    late = end_at - period * (t + 1)
    return 0 <= late < 1e-6 + jit and began_at >= period * (t + 1) - 1e-6 - jit and jit < 0.99 * period


def sig_slow(jitter, connected, case=None, res=None, at=None):
    if case is not None and res is not None and connected and getattr(res, "_t0", None) is not None \
            and boundary_release(case, res, res._t0, at):
        return "C17.false_too_slow|released_by_poll_exactly_at_deadline"
    if jitter and case is not None:
        scn = case["scenario"]
        period = scn["run"]["rt_factor"] * scn["world"].get("time_resolution", 1.0)
        used = sum(case["schedule"].get("jitter", [])[:getattr(res, "jitter_used", 10 ** 6)])
        if used >= 0.99 * period:
            # mosaik polls every rt_factor seconds *after the previous wake-up*: late wake-ups add up
            return "C17.false_too_slow|accumulated_timer_jitter>=period"
    return f"C17.false_too_slow|jitter={'>0' if jitter else '0'}|connected={connected}"


def analyse_non_rt(case, res):
    """set_event outside real-time mode is an error (to the caller of set_event)"""
    fails = []
    for x in case.get("externals", []):
        errs = [e for e in res.trace if e[0] == "ext_set_event_err" and e[2] == x["event"]]
        fired = any(e[0] == "ext_set_event" and e[2] == x["event"] for e in res.trace)
        if fired and not errs:
            fails.append(Failure("C17.event", "C17.event|accepted_outside_rt",
                                 f"set_event({x['event']}) in a non-real-time run did not fail"))
        elif errs and errs[0][3] != "SimulationError":
            fails.append(Failure("C17.event", "C17.event|wrong_error_outside_rt", f"{errs[0][3:]}"))
    return fails, True, ["non_rt"]


check_case = schedprops.make_check_case(analyse)


def shards(tier, seed):
    return schedprops.std_shards(PROP, tier, seed)


def shard(prop, tier, seed, shard, nshards):
    from hypothesis import strategies as st
    acc = core.Acc(PROP, budget_s=200 if tier == "quick" else 1500)

    @st.composite
    def hcase(draw):
        rtf = draw(st.sampled_from([0.1, 0.125, 0.25, 0.3, 0.5, 1, 2]))
        tres = draw(st.sampled_from([0.5, 1.0, 2.0]))
        period = rtf * tres
        n = draw(st.integers(1, 3))
        until = draw(st.integers(2, 6))
        steps = [draw(st.lists(st.integers(1, 2), min_size=1, max_size=2)) for _ in range(n)]
        mode = draw(st.sampled_from(["zero", "zero", "some"]))
        durs = []
        for _ in range(n):
            if mode == "zero":
                durs.append([0.0])
            else:
                durs.append(draw(st.lists(st.sampled_from([0.0, 0.25 * period, 0.5 * period, period, 1.5 * period,
                                                           3 * period]), min_size=1, max_size=3)))
        jit = draw(st.sampled_from([[], [], [0.0], "some"]))
        if jit == "some":
            jit = draw(st.lists(st.sampled_from([0.0, 2.0 ** -20, period / 64, period / 4]), min_size=1, max_size=6))
        ext = []
        burst = draw(st.integers(0, 7)) == 0
        if burst:
            # many events for one simulator, announced in any order, most of them pending at the same time
            until = draw(st.integers(8, 12))
            for _ in range(draw(st.integers(4, 8))):
                at = draw(st.sampled_from([0.0, 0.0, 0.0, 1.5 * period, 2.5 * period, 3.5 * period]))
                ext.append({"at": at, "sim": "E", "event": int(at // period) + 1 + draw(st.integers(0, 9))})
        elif draw(st.integers(0, 2)) == 0:
            for _ in range(draw(st.integers(1, 2))):
                at = draw(st.sampled_from([0.0, 0.5 * period, period, 1.75 * period, 2.5 * period]))
                # strictly in the future at that instant (period * t > at), possibly at or after until
                ext.append({"at": at, "sim": "E", "event": int(at // period) + 1 + draw(st.integers(0, 3))})
        c = build(n, rtf, tres, steps, durs, draw(st.booleans()), until, strict=draw(st.integers(0, 3)) == 0,
                  jitter=jit, externals=ext)
        # external events may also be addressed to a time-based simulator (between its own steps)
        if ext and draw(st.booleans()):
            tgt = draw(st.sampled_from([sm["sid"] for sm in c["scenario"]["sims"] if sm["sid"] != "E"]))
            for sm in c["scenario"]["sims"]:
                if sm["sid"] == tgt:
                    sm["set_events"] = True
                    sm["beh"]["steps"] = [draw(st.sampled_from([2, 3, 4]))]
            for x in c["externals"]:
                x["sim"] = tgt
            c["scenario"]["until"] = until = max(until, 6)
        # ungated simulators (immediate, synchronous replies like the repository's test simulators)
        if mode == "zero" and draw(st.integers(0, 2)) == 0:
            for sm in c["scenario"]["sims"]:
                if sm["sid"] != "E" and draw(st.booleans()):
                    sm["transport"] = "sync"
        # simulator groups
        g = draw(st.sampled_from([0, 0, 0, 1, 2]))
        tree = c["scenario"]["tree"]
        if g == 1:
            c["scenario"]["tree"] = [tree]
        elif g == 2 and len(tree) >= 2:
            c["scenario"]["tree"] = [tree[:1]] + tree[1:]
        if ext and draw(st.integers(0, 3)) == 0:
            c["scenario"]["run"]["rt_factor"] = None        # set_event outside real-time mode
            c["schedule"] = {}
        return c

    core.drive(hcase(), check_case, acc, 200 if tier == "quick" else 10000, seed * 1000 + shard)
    return acc

"""C18 Bulk connection helpers distribute connections as documented."""
from __future__ import annotations

import random

from mvf import core
from mvf.core import Failure

PROP = "C18"
LEVEL = "exploration"
RULE = ("exhaustive grid |src| 0..12 x |dest| 1..8 x evenly x max_connects in {1,2,3,inf} (documented "
        "precondition |src| <= |dest|*max_connects, boundary included) x 50 seeds of the global random module, "
        "x the kind of iterable passed as destination set (list, tuple, generator, iterator, dict view, filter) and "
        "as source set (list, tuple); recorded World.connect calls checked against the documented distribution; Hypothesis for sizes up to "
        "200, large destination sets (64..5000) with a small remainder in the last round, and an end-to-end sample "
        "against a real World; non-trivial = |src| > |dest| or |src| = "
        "|dest|*max_connects or finite max_connects; distinct = distinct (sizes, flags, seed) tuples")
RULE += '; a finite max_connects as int or as float with integral value'
ASSUMPTIONS = [
    "the helpers use only World.connect (checked against a recording stand-in; a sample runs against a real World)",
    "the seed of the global random module is part of the case (the helpers draw from it)",
]


DEST_KINDS = ("list", "tuple", "gen", "iter", "keys", "filter")


def exhaustive(tier):
    return True


class Ent:
    __slots__ = ("name",)

    def __init__(self, name):
        self.name = name

    def __repr__(self):
        return self.name


class RecWorld:
    def __init__(self):
        self.calls = []

    def connect(self, src, dest, *attrs, **kw):
        self.calls.append((src, dest, attrs, kw))


class LineBudget(BaseException):
    pass


def bounded(fn, budget):
    """run fn with a deterministic bound on the number of source lines executed inside mosaik/util.py (the helpers
    are linear in the sizes; an endless loop becomes a failure of the case instead of a hanging check)"""
    import sys
    n = 0

    def local(frame, event, arg):
        nonlocal n
        if event == "line":
            n += 1
            if n > budget:
                raise LineBudget(budget)
        return local

    def tr(frame, event, arg):
        return local if frame.f_code.co_filename.replace("\\", "/").endswith("mosaik/util.py") else None
    old = sys.gettrace()
    sys.settrace(tr)
    try:
        return fn()
    finally:
        sys.settrace(old)


def run_case(case):
    """returns list of (rule, msg)"""
    from mosaik import util
    ns, nd = case["n_src"], case["n_dest"]
    evenly = case["evenly"]
    mc = case["max_connects"]            # None = inf / not given
    seed = case["seed"]
    attrs = tuple(tuple(a) if isinstance(a, list) else a for a in case.get("attrs", ["a", ["b", "c"]]))
    src = [Ent(f"s{i}") for i in range(ns)]
    dest = [Ent(f"d{i}") for i in range(nd)]
    dest_before = list(dest)
    # "src_set and dest_set are iterables": the source set must support len() and slicing (list or tuple, the
    # annotated and observed domain), the destination set is copied first and may be any iterable, one-shot ones
    # (generator, iterator, filter) and views included
    src_arg = tuple(src) if case.get("src_kind") == "tuple" else src
    dk = case.get("dest_kind", "list")
    dest_arg = {"list": lambda: dest, "tuple": lambda: tuple(dest), "gen": lambda: (d for d in dest_before),
                "iter": lambda: iter(dest_before), "keys": lambda: dict.fromkeys(dest_before).keys(),
                "filter": lambda: filter(None, dest_before)}[dk]()
    w = RecWorld()
    random.seed(seed)
    kw = {} if (evenly and case.get("evenly_omitted")) else {"evenly": evenly}     # documented default: evenly=True
    # the limit is a number: the documented default is itself a float (inf), so a finite limit may also arrive as a
    # float with an integral value (2.0, e.g. the result of a division or of math.ceil on some platforms)
    if mc is not None:
        kw["max_connects"] = float(mc) if case.get("mc_kind") == "float" else mc
    elif case.get("mc_kind") == "inf":
        kw["max_connects"] = float("inf")
    out = []
    try:
        ret = bounded(lambda: util.connect_randomly(w, src_arg, dest_arg, *attrs, **kw), 500 * (ns + nd) + 10000)
    except LineBudget as e:
        return [("C18.no_termination", f"connect_randomly executed more than {e} lines of mosaik/util.py for "
                                       f"{ns} sources and {nd} destinations ({len(w.calls)} connections made)")]
    except Exception as e:  # noqa
        return [("C18.exception", f"{type(e).__name__}: {e} (inside the documented precondition)")]
    srcs = [c[0] for c in w.calls]
    if sorted(srcs, key=id) != sorted(src, key=id):
        missing = [s for s in src if srcs.count(s) == 0]
        dup = [s for s in src if srcs.count(s) > 1]
        out.append(("C18.each_source_once", f"missing={missing} duplicated={dup}"))
    if any(c[1] not in dest_before for c in w.calls):
        out.append(("C18.foreign_dest", "connected to an entity outside dest_set"))
    if any(c[2] != attrs for c in w.calls):
        out.append(("C18.attrs", f"attrs not passed on: {[c[2] for c in w.calls][:2]}"))
    counts = {d: 0 for d in dest_before}
    for c in w.calls:
        if c[1] in counts:
            counts[c[1]] += 1
    if evenly:
        if max(counts.values()) - min(counts.values()) > 1:
            vals = sorted(counts.values())
            out.append(("C18.evenly", f"connections per destination range from {vals[0]} to {vals[-1]} "
                                      f"({vals[:6]} ... {vals[-6:]})"))
    elif mc is not None and max(counts.values()) > mc:
        out.append(("C18.max_connects", f"a destination received {max(counts.values())} > {mc}"))
    want = {d for d, n in counts.items() if n > 0}
    try:
        got = set(ret)
    except TypeError:
        got = ret
    if got != want:
        out.append(("C18.returned_set", f"returned {ret} expected {want}"))
    return out


def run_many_to_one(case):
    from mosaik import util
    ns = case["n_src"]
    flag = case["async_requests"]
    src = [Ent(f"s{i}") for i in range(ns)]
    dest = Ent("d")
    w = RecWorld()
    attrs = ("a", ("b", "c"))
    try:
        if flag is None:
            util.connect_many_to_one(w, src, dest, *attrs)
        else:
            util.connect_many_to_one(w, src, dest, *attrs, async_requests=flag)
    except Exception as e:  # noqa
        return [("C18.exception", f"connect_many_to_one: {type(e).__name__}: {e}")]
    out = []
    if [c[0] for c in w.calls] != src or any(c[1] is not dest for c in w.calls):
        out.append(("C18.many_to_one", f"calls {[(c[0], c[1]) for c in w.calls]}"))
    if any(c[2] != attrs for c in w.calls):
        out.append(("C18.attrs", "attrs not passed on"))
    want_flag = bool(flag)
    if any(bool(c[3].get("async_requests", False)) != want_flag for c in w.calls):
        out.append(("C18.flags", "async_requests flag not passed on"))
    return out


def run_end_to_end(case):
    """real World: connections recorded by wrapping world.connect, which still executes."""
    from mosaik import util
    from mvf.simple_sim import quiet_world, close_world
    meta = {"api_version": "3.0", "type": "time-based",
            "models": {"M": {"public": True, "params": [], "attrs": ["a", "b", "c"]}}}
    w = quiet_world()
    out = []
    try:
        A = w.start("Meta", sim_id="A", meta=meta)
        B = w.start("Meta", sim_id="B", meta=meta)
        src = A.M.create(case["n_src"]) if case["n_src"] else []
        dest = B.M.create(case["n_dest"])
        calls = []
        orig = w.connect

        def rec(s, d, *attrs, **kw):
            calls.append((s, d))
            return orig(s, d, *attrs, **kw)
        w.connect = rec
        random.seed(case["seed"])
        kw = {"evenly": case["evenly"]}
        if case["max_connects"] is not None:
            kw["max_connects"] = case["max_connects"]
        ret = util.connect_randomly(w, src, dest, "a", ("b", "c"), **kw)
        counts = {d.full_id: 0 for d in dest}
        for s, d in calls:
            counts[d.full_id] += 1
        if sorted(s.full_id for s, _ in calls) != sorted(s.full_id for s in src):
            out.append(("C18.each_source_once", "end-to-end"))
        if {d.full_id for d in ret} != {k for k, v in counts.items() if v}:
            out.append(("C18.returned_set", "end-to-end"))
        # the data-flows really exist in the world
        for s, d in calls:
            if not w.entity_graph.has_edge(s.full_id, d.full_id):
                out.append(("C18.not_connected", f"{s.full_id}->{d.full_id} missing in entity_graph"))
        if case["evenly"] and counts and max(counts.values()) - min(counts.values()) > 1:
            out.append(("C18.evenly", "end-to-end"))
    except Exception as e:  # noqa
        out.append(("C18.exception", f"end-to-end {type(e).__name__}: {e}"))
    finally:
        close_world(w)
    return out


def nontrivial(case):
    if case.get("kind") == "many_to_one":
        return case["n_src"] > 1
    mc = case["max_connects"]
    return (case["n_src"] > case["n_dest"] or mc is not None
            or (mc is not None and case["n_src"] == case["n_dest"] * mc))


def check_case(case, acc):
    kind = case.get("kind", "randomly")
    if kind == "many_to_one":
        res = run_many_to_one(case)
    elif kind == "e2e":
        res = run_end_to_end(case)
    else:
        res = run_case(case)
    fails = []
    for rule, msg in res:
        shape = ""
        if rule == "C18.exception" and kind == "randomly" and not case["evenly"] \
                and case["max_connects"] is not None and case["n_src"] == case["n_dest"] * case["max_connects"]:
            shape = "|boundary"
        fails.append(Failure(rule, rule + shape, f"{msg}; case={case}", case))
    return acc.triage(fails)


def grid():
    for ns in range(0, 13):
        for nd in range(1, 9):
            for evenly in (True, False):
                for mc in (None, 1, 2, 3):
                    if not evenly and mc is not None and ns > nd * mc:
                        continue
                    if evenly and mc is not None and mc != 2:
                        continue      # ignored by evenly=True; one value shows that
                    yield ns, nd, evenly, mc


def shards(tier, seed):
    n = core.NPROC
    return [dict(prop=PROP, tier=tier, seed=seed, shard=i, nshards=n) for i in range(n)]


def shard(prop, tier, seed, shard, nshards):
    acc = core.Acc(PROP)
    nseeds = 50 if tier == "quick" else 400
    i = 0
    for ns, nd, evenly, mc in grid():
        i += 1
        if i % nshards != shard:
            continue
        for s in range(nseeds):
            case = dict(kind="randomly", n_src=ns, n_dest=nd, evenly=evenly, max_connects=mc,
                        seed=seed * 100000 + s, dest_kind=DEST_KINDS[s % len(DEST_KINDS)],
                        src_kind=("list", "tuple")[(s // len(DEST_KINDS)) % 2])
            if evenly and s % 5 == 4:
                case["evenly_omitted"] = True
            if mc is not None and s % 3 == 2:
                case["mc_kind"] = "float"
            elif mc is None and s % 7 == 3:
                case["mc_kind"] = "inf"
            cls = ["evenly" if evenly else "random",
                   "boundary" if (mc is not None and ns == nd * mc) else "inside", "dest=" + case["dest_kind"]]
            acc.record(case, nontrivial(case), cls)
            for f in check_case(case, acc):
                if len(acc.failures) < 20:
                    acc.failures.append(f)
    if shard == 0:
        for ns in range(0, 8):
            for flag in (None, False, True):
                case = dict(kind="many_to_one", n_src=ns, async_requests=flag)
                acc.record(case, nontrivial(case), ["many_to_one"])
                acc.failures.extend(check_case(case, acc))
    # end-to-end sample
    j = 0
    for ns, nd, evenly, mc in grid():
        j += 1
        if j % (nshards * (8 if tier == "quick" else 1)) != shard:
            continue
        case = dict(kind="e2e", n_src=ns, n_dest=nd, evenly=evenly, max_connects=mc, seed=seed)
        acc.record(case, nontrivial(case), ["e2e"])
        for f in check_case(case, acc):
            if len(acc.failures) < 20:
                acc.failures.append(f)

    from hypothesis import strategies as st

    @st.composite
    def hcase(draw):
        nd = draw(st.integers(1, 60))
        evenly = draw(st.booleans())
        mc = draw(st.one_of(st.none(), st.integers(1, 6)))
        hi = 200 if (evenly or mc is None) else nd * mc
        ns = draw(st.one_of(st.integers(0, hi), st.just(hi)))
        return dict(kind="randomly", n_src=ns, n_dest=nd, evenly=evenly, max_connects=mc,
                    seed=draw(st.integers(0, 2 ** 31)), dest_kind=draw(st.sampled_from(DEST_KINDS)),
                    src_kind=draw(st.sampled_from(["list", "tuple"])))

    @st.composite
    def hlarge(draw):
        # large destination sets with a small remainder in the last round (and just above / below a multiple)
        nd = draw(st.one_of(st.integers(64, 600), st.integers(600, 5000)))
        q = draw(st.integers(1, 2))
        r = draw(st.integers(0, max(2, nd // 16)))
        evenly = draw(st.sampled_from([True, True, False]))
        mc = None if evenly else draw(st.one_of(st.none(), st.integers(q + 1, q + 3)))
        return dict(kind="randomly", n_src=q * nd + r, n_dest=nd, evenly=evenly, max_connects=mc,
                    seed=draw(st.integers(0, 2 ** 31)))

    def hcheck(case, acc_):
        acc_.record(case, nontrivial(case), ["hyp.large" if case["n_dest"] >= 64 else "hyp"])
        return check_case(case, acc_)

    core.drive(hcase(), hcheck, acc, (600 if tier == "quick" else 20000) // nshards + 1,
               seed * 1000 + shard)
    core.drive(hlarge(), hcheck, acc, (8000 if tier == "quick" else 80000) // nshards + 1,
               seed * 1000 + 400 + shard)
    return acc

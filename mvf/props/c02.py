"""C02 Exact step set: no lost, spurious, duplicated or out-of-order steps."""
from __future__ import annotations

from mvf import core, gen, schedprops

PROP = "C02"
LEVEL = "exploration"
RULE = ("Hypothesis-generated (scenario, schedule) cases run under the controlled loop; a history monitor derives the "
        "demanded tiered times from the observed replies (time 0, initial events, returned next steps < until, "
        "delayed output times of values delivered to trigger inputs) and requires every step to be the minimum "
        "outstanding demand, strictly increasing, in [0, until), and every demand executed at the end; debug runs "
        "also compare the labels with world.execution_graph. non-trivial = the run has a trigger-caused step and "
        "a non-FIFO release, or a demand inserted below an outstanding one; distinct = distinct case hashes"
        "; in addition six long runs (until 80 / 120 / 1100, strides of hundreds, 24 simulators) under FIFO, LIFO and a starved simulator, and the "
        "extreme policies (LIFO, steps first, get_data first, each simulator starved) before every schedule enumeration")
ASSUMPTIONS = [
    "scripted compliant simulators; 'demanded' as derived by the monitor from observed replies (DESIGN 2.3)",
    "runs aborted by a C05-class failure (deadlock / internal error) are counted, not judged here",
]


def analyse(case, res):
    if res.outcome in ("rejected", "build_error"):
        return [], False, []
    fails, mon, other = schedprops.monitor_failures(case, res, "C02")
    extra = []
    if schedprops.aborted_by_other(res):
        extra.append("aborted_by_other_property")
        fails = [f for f in fails if f["rule"] != "C02.lost"]
    st = mon.stats
    nontrivial = (st["trigger_steps"] > 0 and res.stats.get("nonfifo", 0) > 0) or st["inserted_earlier"] > 0
    if st["inserted_earlier"]:
        extra.append("inserted_earlier")
    if st["substeps"]:
        extra.append("substeps")
    if st["trigger_steps"]:
        extra.append("trigger_steps")
    return fails, nontrivial, extra


check_case = schedprops.make_check_case(analyse)


def shards(tier, seed):
    return schedprops.std_shards(PROP, tier, seed)


def shard(prop, tier, seed, shard, nshards):
    acc = core.Acc(PROP, budget_s=150 if tier == "quick" else 1500)
    n = 300 if tier == "quick" else 10000
    core.drive(gen.cases(), check_case, acc, n, seed * 1000 + shard)
    if tier == "thorough":
        # a minority of oversized scenarios (up to 7 simulators, until 12, 12 connections)
        core.drive(gen.cases(min_sims=4, max_sims=7, max_until=12, max_conns=12, debug_ok=False), check_case, acc,
                   n // 8, seed * 1000 + 900 + shard)
    micro = sorted(gen.micro_scenarios().items())
    runs, complete = 0, True
    for i, (name, scn) in enumerate(micro):
        if i % nshards != shard:
            continue
        r, c = schedprops.enumerate_schedules(scn, check_case, acc, 2 if tier == "quick" else 3,
                                              max_runs=1200 if tier == "quick" else 30000)
        runs += r
        complete = complete and c
    acc.extra["enumerated_schedule_runs"] = runs
    acc.extra["enumeration_complete"] = complete
    schedprops.run_long(check_case, acc, shard, nshards)
    return acc


def extra_coverage(tier, merged):
    """self-test of the oracle: the history monitor against the maintainers' expected execution graphs and
    inputs of the repository's scenario tests (DESIGN 10.8); informative, never changes the verdict"""
    import os
    import subprocess
    import sys
    import json
    try:
        r = subprocess.run([sys.executable, "-c",
                            "import json; from mvf import calibrate; print('CALIB' + json.dumps(calibrate.summary()))"],
                           capture_output=True, text=True, timeout=300, env=dict(os.environ))
        line = [l for l in r.stdout.splitlines() if l.startswith("CALIB")]
        return {"monitor_calibration_on_repo_scenarios": json.loads(line[-1][5:]) if line else {"error": r.stderr[-200:]}}
    except BaseException as e:  # noqa
        return {"monitor_calibration_on_repo_scenarios": {"error": str(e)[:200]}}

"""C14 Fault containment and clean shutdown."""
from __future__ import annotations

import copy

from mvf import core, gen, harness, schedprops
from mvf.core import Failure

PROP = "C14"
LEVEL = "fault_enumeration"
RULE = ("fault enumeration: for each base scenario (pair, chain of 3, diamond fan-in, shifted cycle, weak loop, "
        "trigger chain) a fault-free run counts the requests (setup_done, each step, each get_data) of every "
        "simulator; then a fault is injected at EVERY request index of every simulator, for each kind (exception in "
        "the handler; connection close = process gone) and transport (local: exception; in-memory remote: both), under fifo/lifo/picks schedules and with the other simulators' "
        "pending replies either released or withheld during shutdown; plus Hypothesis-drawn (scenario, schedule, "
        "fault) triples. Oracle under the controlled loop: run() returns or raises (an idle loop is a hang, exactly), "
        "virtual time <= stop time-outs, every other simulator finalized exactly once and never stepped after its "
        "finalize, loop closed, no open transport, no pending task. non-trivial = fault at request index >= 1 with "
        ">= 1 other simulator; distinct = distinct (scenario, schedule, fault) hashes")
ASSUMPTIONS = [
    "process death is modelled by closing the in-memory transport from the simulator side (the real-process tier is "
    "not built; OS-level effects such as partial writes are out of reach, see DESIGN 7)",
    "one fault per run",
]


def pending_are_sim_processes(res):
    """all leftover tasks are mosaik's per-simulator runner tasks or their internal waits"""
    names = getattr(res, "leftover_names", None)
    return bool(names) and all(n.startswith("Runner for ") or n.startswith("Task-") for n in names)


def analyse(case, res):
    f = case["faults"][0]
    sid, kind = f["sim"], f["kind"]
    scn = case["scenario"]
    others = [s["sid"] for s in scn["sims"] if s["sid"] != sid]
    if res.fault_fired is None:
        return [], False, ["fault_not_reached"]
    transport = {s["sid"]: s.get("transport", "local") for s in scn["sims"]}
    fails = []
    shape = f"{kind}|{transport[sid]}|{res.fault_fired[3]}"
    if res.outcome in ("deadlock", "livelock", "runaway"):
        fails.append(Failure("C14.hang", f"C14.hang|{shape}",
                             f"{sid} failed ({kind}) at request {f['req']} ({res.fault_fired[3]}): run() ended in {res.outcome}"))
    if res.shutdown_hang:
        fails.append(Failure("C14.shutdown_hang", f"C14.shutdown_hang|{shape}|{res.shutdown_hang}",
                             f"shutdown after the failure of {sid} did not finish ({res.shutdown_hang})"))
    if res.outcome == "returned" and not any(lv == "ERROR" for lv, _ in res.logs):
        fails.append(Failure("C14.silent", f"C14.silent|{shape}",
                             f"{sid} failed ({kind}) but run() returned without raising or logging an error"))
    fin = {}
    finalized_at = {}
    for i, e in enumerate(res.trace):
        if e[0] == "finalize":
            fin[e[1]] = fin.get(e[1], 0) + 1
            finalized_at.setdefault(e[1], i)
    if not res.shutdown_hang and res.outcome not in ("deadlock", "livelock", "runaway"):
        for o in others:
            n = fin.get(o, 0)
            if n == 0 and o in res.held and transport[o] == "mem":
                continue    # a remote simulator that never answers its pending request cannot process 'stop'
            if n == 0:
                fails.append(Failure("C14.not_stopped", f"C14.not_stopped|{shape}|other={transport[o]}",
                                     f"{o} was never finalized after {sid} failed ({kind})"))
            elif n > 1:
                fails.append(Failure("C14.stopped_twice", f"C14.stopped_twice|{shape}|other={transport[o]}",
                                     f"{o} was finalized {n} times"))
    for i, e in enumerate(res.trace):
        if e[0] == "step_begin" and e[1] in finalized_at and i > finalized_at[e[1]]:
            fails.append(Failure("C14.step_after_finalize", "C14.step_after_finalize|other_processes_keep_running",
                                 f"{e[1]} received step({e[2]}) after its finalize()"))
            break
    if res.leftover_tasks and not res.shutdown_hang and res.outcome not in ("deadlock", "livelock", "runaway"):
        fails.append(Failure("C14.pending_tasks", "C14.pending_tasks|other_processes_keep_running"
                             if pending_are_sim_processes(res) else f"C14.pending_tasks|{shape}",
                             f"{res.leftover_tasks} task(s) of the event loop are still pending after run() ended"))
    if res.loop_closed is False:
        fails.append(Failure("C14.loop_open", f"C14.loop_open|{shape}", "world.loop is not closed after run()"))
    if res.open_transports:
        fails.append(Failure("C14.transport_open", f"C14.transport_open|{shape}",
                             f"{res.open_transports} connection(s) to simulators still open"))
    n_remote = sum(1 for t in transport.values() if t == "mem")
    if res.virtual_elapsed > 0.1 * n_remote + 0.5:
        fails.append(Failure("C14.slow", f"C14.slow|{shape}",
                             f"run() took {res.virtual_elapsed:.2f} virtual seconds to terminate"))
    nontrivial = f["req"] >= 1 and bool(others)
    return fails, nontrivial, [f"kind.{kind}", f"transport.{transport[sid]}", f"at.{res.fault_fired[3]}",
                               "shutdown." + case.get("schedule", {}).get("shutdown", "release")]


check_case = schedprops.make_check_case(analyse)

SCHEDULES = [{}, {"policy": "lifo"}, {"picks": [1, 2, 0, 1, 2, 1, 0, 2]}]


def base_scenarios():
    m = gen.micro_scenarios()
    out = []
    for n in ["pair_tb", "chain3", "diamond", "shifted_cycle", "weak_loop", "trigger_chain"]:
        scn = copy.deepcopy(m[n])
        scn["until"] = min(scn["until"], 3)
        for mode in ("local", "mem", "mixed"):
            s = copy.deepcopy(scn)
            for i, sm in enumerate(s["sims"]):
                if mode == "mem" or (mode == "mixed" and i % 2 == 0):
                    sm["transport"] = "mem"
            out.append((f"{n}_{mode}", s))
    return out


def request_counts(scn):
    base = harness.run_case({"scenario": scn})
    counts = {}
    for e in base.trace:
        if e[0] in ("setup_done", "step_begin", "get_begin"):
            counts[e[1]] = counts.get(e[1], 0) + 1
    return counts


def shards(tier, seed):
    return schedprops.std_shards(PROP, tier, seed)


def shard(prop, tier, seed, shard, nshards):
    acc = core.Acc(PROP, budget_s=200 if tier == "quick" else 1500)
    i = 0
    for name, scn in base_scenarios():
        counts = request_counts(scn)
        for sm in scn["sims"]:
            kinds = ["raise"] if sm.get("transport") != "mem" else ["raise", "close"]
            for req in range(counts.get(sm["sid"], 0)):
                for kind in kinds:
                    for sched in (SCHEDULES if tier == "thorough" else SCHEDULES[:2]):
                        for sd in ("release", "hold"):
                            i += 1
                            if i % nshards != shard or acc.out_of_time():
                                continue
                            case = {"scenario": scn, "schedule": dict(sched, shutdown=sd),
                                    "faults": [{"sim": sm["sid"], "req": req, "kind": kind}]}
                            for f in check_case(case, acc):
                                if len(acc.failures) < 30:
                                    acc.failures.append(f)
    from hypothesis import strategies as st

    @st.composite
    def hcase(draw):
        c = draw(gen.cases(min_sims=2, debug_ok=False))
        sm = draw(st.sampled_from(c["scenario"]["sims"]))
        kind = draw(st.sampled_from(["raise"] if sm.get("transport") != "mem" else ["raise", "close"]))
        c["faults"] = [{"sim": sm["sid"], "req": draw(st.integers(0, 8)), "kind": kind}]
        c["schedule"]["shutdown"] = draw(st.sampled_from(["release", "hold"]))
        return c

    core.drive(hcase(), check_case, acc, 120 if tier == "quick" else 2000, seed * 1000 + shard)
    return acc

"""C14 Fault containment and clean shutdown."""
from __future__ import annotations

import copy

from mvf import core, gen, harness, schedprops
from mvf.core import Failure

PROP = "C14"
LEVEL = "fault_enumeration"
RULE = ("fault enumeration: for each base scenario (pair, chain of 3, diamond fan-in, shifted cycle, weak loop, "
        "trigger chain, controller with two agents using asynchronous requests; local / in-memory remote / mixed) a "
        "fault-free run counts the requests (setup_done, each step, each get_data incl. forwarded asynchronous ones) "
        "of every simulator; then a fault is injected at EVERY request index of every simulator, for each kind "
        "(exception in the handler; connection close = process gone; close whose next write is answered with a "
        "reset) and transport (local: exception; in-memory remote: all three), under fifo/lifo/picks schedules and "
        "with the other simulators' pending replies either released or withheld during shutdown; plus "
        "Hypothesis-drawn (scenario, schedule, fault) triples; plus a sampled real-process tier (three `cmd` "
        "simulators over TCP, one fails with os._exit or an exception at request 0..5). Oracle under the controlled "
        "loop: run() returns or raises (an idle loop is a hang, exactly), virtual time <= stop time-outs, every other "
        "simulator finalized exactly once and never stepped after its finalize, loop closed, no open transport, no "
        "pending task; real processes: run() ends within a wall budget, every other process finalizes once and "
        "exits, loop closed, no descriptor leak. non-trivial = fault at request index >= 1 with >= 1 other "
        "simulator; distinct = distinct (scenario, schedule, fault) hashes")
RULE += '; fault kinds include close_after (the connection closes right behind the reply: the process ends between two requests); every fault also under the default and the per-simulator progress display'
ASSUMPTIONS = [
    "process death is modelled by closing the in-memory transport from the simulator side; the real-process tier "
    "is sampled and uses wall-clock budgets (90 s, a time-out is re-run once and only a repeated one counts)",
    "one fault per run",
]


def pending_are_sim_processes(res):
    """all leftover tasks are mosaik's per-simulator runner tasks or their internal waits"""
    names = getattr(res, "leftover_names", None)
    return bool(names) and all(n.startswith("Runner for ") or n.startswith("Task-") for n in names)


def analyse(case, res):
    f = case["faults"][0]
    sid, kind = f["sim"], f["kind"]
    scn = case["scenario"]
    others = [s["sid"] for s in scn["sims"] if s["sid"] != sid]
    if res.fault_fired is None:
        return [], False, ["fault_not_reached"]
    transport = {s["sid"]: s.get("transport", "local") for s in scn["sims"]}
    fails = []
    shape = f"{kind}|{transport[sid]}|{res.fault_fired[3]}"
    if res.outcome in ("deadlock", "livelock", "runaway"):
        fails.append(Failure("C14.hang", f"C14.hang|{shape}",
                             f"{sid} failed ({kind}) at request {f['req']} ({res.fault_fired[3]}): run() ended in {res.outcome}"))
    local_held = [h for h in res.held if transport.get(h) != "mem"]
    if res.shutdown_hang and local_held and case.get("schedule", {}).get("shutdown") == "hold":
        # shutdown waits for the answer of an in-process simulator that the schedule withholds forever (a
        # forwarded asynchronous get_data): that simulator is not "always answering", nothing to judge
        return [], False, ["local_simulator_never_answers_not_judged"]
    if res.shutdown_hang:
        fails.append(Failure("C14.shutdown_hang", f"C14.shutdown_hang|{shape}|{res.shutdown_hang}",
                             f"shutdown after the failure of {sid} did not finish ({res.shutdown_hang})"))
    # (a simulator that goes away right after the reply to its *last* request has done all it was asked to do: a
    # normal end of run() is then fine)
    if (res.outcome == "returned" and not any(lv == "ERROR" for lv, _ in res.logs)
            and not (kind == "close_after" and f.get("last"))):
        fails.append(Failure("C14.silent", f"C14.silent|{shape}",
                             f"{sid} failed ({kind}) but run() returned without raising or logging an error"))
    fin = {}
    finalized_at = {}
    for i, e in enumerate(res.trace):
        if e[0] == "finalize":
            fin[e[1]] = fin.get(e[1], 0) + 1
            finalized_at.setdefault(e[1], i)
    if not res.shutdown_hang and res.outcome not in ("deadlock", "livelock", "runaway"):
        for o in others:
            n = fin.get(o, 0)
            if n == 0 and o in res.held and transport[o] == "mem":
                continue    # a remote simulator that never answers its pending request cannot process 'stop'
            if n == 0:
                fails.append(Failure("C14.not_stopped", f"C14.not_stopped|{shape}|other={transport[o]}",
                                     f"{o} was never finalized after {sid} failed ({kind})"))
            elif n > 1:
                fails.append(Failure("C14.stopped_twice", f"C14.stopped_twice|{shape}|other={transport[o]}",
                                     f"{o} was finalized {n} times"))
    for i, e in enumerate(res.trace):
        if e[0] == "step_begin" and e[1] in finalized_at and i > finalized_at[e[1]]:
            fails.append(Failure("C14.step_after_finalize", "C14.step_after_finalize|other_processes_keep_running",
                                 f"{e[1]} received step({e[2]}) after its finalize()"))
            break
    if res.leftover_tasks and not res.shutdown_hang and res.outcome not in ("deadlock", "livelock", "runaway"):
        fails.append(Failure("C14.pending_tasks", "C14.pending_tasks|other_processes_keep_running"
                             if pending_are_sim_processes(res) else f"C14.pending_tasks|{shape}",
                             f"{res.leftover_tasks} task(s) of the event loop are still pending after run() ended"))
    if res.loop_closed is False:
        fails.append(Failure("C14.loop_open", f"C14.loop_open|{shape}", "world.loop is not closed after run()"))
    if res.open_transports:
        fails.append(Failure("C14.transport_open", f"C14.transport_open|{shape}",
                             f"{res.open_transports} connection(s) to simulators still open"))
    n_remote = sum(1 for t in transport.values() if t == "mem")
    # "promptly": a generous bound on the virtual clock (the harness configures stop_timeout = 1 s per simulator);
    # a run that never ends is the hang rule's business, this one only catches waits of many seconds
    if res.virtual_elapsed > 2.0 * n_remote + 5.0:
        fails.append(Failure("C14.slow", f"C14.slow|{shape}",
                             f"run() took {res.virtual_elapsed:.2f} virtual seconds to terminate"))
    nontrivial = (f["req"] == "finalize" or f["req"] >= 1) and bool(others)
    return fails, nontrivial, [f"kind.{kind}", f"transport.{transport[sid]}", f"at.{res.fault_fired[3]}",
                               "shutdown." + case.get("schedule", {}).get("shutdown", "release")]


_check_sim = schedprops.make_check_case(analyse)


def check_case(case, acc, holder=None):
    if case.get("real"):
        return check_real(case, acc)
    return _check_sim(case, acc, holder)


SCHEDULES = [{}, {"policy": "lifo"}, {"picks": [1, 2, 0, 1, 2, 1, 0, 2]}]


def base_scenarios():
    m = gen.micro_scenarios()
    out = []
    for n in ["pair_tb", "chain3", "diamond", "shifted_cycle", "weak_loop", "trigger_chain"]:
        scn = copy.deepcopy(m[n])
        scn["until"] = min(scn["until"], 3)
        for mode in ("local", "mem", "mixed"):
            s = copy.deepcopy(scn)
            for i, sm in enumerate(s["sims"]):
                if mode == "mem" or (mode == "mixed" and i % 2 == 0):
                    sm["transport"] = "mem"
            out.append((f"{n}_{mode}", s))
    # controller + agents with asynchronous requests: the forwarded get_data / set_data are requests, too
    from mvf.props import c16
    for tr in ([0, 0], [1, 1], [1, 0]):
        for a_mem in (False, True):
            for cache in (True, False):
                s = c16.build(2, [1], [[1], [2]], [[1], [1, 0]], [[1], [1]], tr, until=3)
                s["world"]["cache"] = cache
                if a_mem:
                    s["sims"][0]["transport"] = "mem"
                out.append((f"async_{tr}_{a_mem}_{cache}", s))
    return out


def request_counts(scn):
    base = harness.run_case({"scenario": scn})
    counts = {}
    for e in base.trace:
        if e[0] in ("setup_done", "step_begin", "get_begin"):
            counts[e[1]] = counts.get(e[1], 0) + 1
    return counts


# ---------------------------------------------------------------- real-process tier (sampled, wall clock)

class _WallTimeout(BaseException):
    pass


def run_real_case(case):
    """three `cmd` simulators as real processes over TCP: A -> B, C alone; one of them fails."""
    import glob
    import os
    import shutil
    import signal
    import sys
    import tempfile
    import time
    import warnings
    import mosaik
    from loguru import logger
    logger.remove()
    logs = []
    logger.add(lambda m: logs.append(m.record["level"].name), level="ERROR")
    warnings.simplefilter("ignore")
    d = tempfile.mkdtemp(prefix="c14real_", dir=os.environ.get("MVF_SCRATCH"))
    script = os.path.join(os.path.dirname(os.path.dirname(os.path.abspath(__file__))), "remote_sim.py")
    env = {"PYTHONPATH": os.pathsep.join(p for p in sys.path if p)}
    cfg = {"P": {"cmd": f"%(python)s {script} -l critical %(addr)s", "env": env}}
    res = {"outcome": None, "elapsed": None, "alive_after": [], "finalized": {}, "loop_closed": None, "dir": d}
    fds0 = len(os.listdir("/proc/self/fd"))
    world = None

    def on_alarm(sig, frm):
        raise _WallTimeout()
    old = signal.signal(signal.SIGALRM, on_alarm)
    remaining = signal.alarm(0)
    try:
        signal.alarm(90)
        world = mosaik.World(cfg, skip_greetings=True, mosaik_config={"start_timeout": 60, "stop_timeout": 10})
        ents = {}
        for sid in ("A", "B", "C"):
            kw = {}
            if sid == case["sim"]:
                kw = {"die_req": case["req"], "die_kind": case["kind"]}
            ents[sid] = world.start("P", sim_id=sid, case_dir=d, **kw).M.create(1)[0]
        world.connect(ents["A"], ents["B"], "a")
        t0 = time.time()
        try:
            world.run(until=3, print_progress=False)
            res["outcome"] = "returned"
        except _WallTimeout:
            res["outcome"] = "hang"
        except BaseException as e:  # noqa
            res["outcome"] = "raised:" + type(e).__name__
        res["elapsed"] = time.time() - t0
        res["loop_closed"] = world.loop.is_closed()
        res["error_logged"] = "ERROR" in logs
    except _WallTimeout:
        res["outcome"] = res["outcome"] or "hang_in_setup"
    finally:
        signal.alarm(0)
        signal.signal(signal.SIGALRM, old)
        if remaining:
            signal.alarm(remaining)
    # the surviving simulator processes must exit by themselves
    pids = {}
    for f in glob.glob(os.path.join(d, "pid_*")):
        try:
            pids[os.path.basename(f)[4:]] = int(open(f).read())
        except ValueError:
            pass
    deadline = time.time() + 10
    alive = dict(pids)
    while alive and time.time() < deadline:
        for sid, pid in list(alive.items()):
            if not os.path.exists(f"/proc/{pid}") or open(f"/proc/{pid}/stat").read().split()[2] == "Z":
                alive.pop(sid)
        time.sleep(0.05)
    res["alive_after"] = sorted(alive)
    for sid, pid in alive.items():
        try:
            os.kill(pid, 9)
        except OSError:
            pass
    for sid in ("A", "B", "C"):
        f = os.path.join(d, f"fin_{sid}")
        res["finalized"][sid] = len(open(f).read().splitlines()) if os.path.exists(f) else 0
    rf = os.path.join(d, f"req_{case['sim']}")
    reached = [l.split()[0] for l in open(rf).read().splitlines()] if os.path.exists(rf) else []
    res["fault_reached"] = str(case["req"]) in reached
    # clean-up of a world whose run() did not shut it down (a hang): also bounded, shutdown itself may block
    old2 = signal.signal(signal.SIGALRM, on_alarm)
    remaining2 = signal.alarm(0)
    try:
        signal.alarm(30)
        if world is not None and not world.loop.is_closed():
            world.shutdown()
    except _WallTimeout:
        res["cleanup_hang"] = True
    except BaseException:  # noqa
        pass
    finally:
        signal.alarm(0)
        signal.signal(signal.SIGALRM, old2)
        if remaining2:
            signal.alarm(remaining2)
    res["fd_delta"] = len(os.listdir("/proc/self/fd")) - fds0
    shutil.rmtree(d, ignore_errors=True)
    return res


def check_real(case, acc):
    res = run_real_case(case)
    if res["outcome"] in ("hang", "hang_in_setup"):
        res2 = run_real_case(case)           # wall-clock verdicts are re-run once
        if res2["outcome"] not in ("hang", "hang_in_setup"):
            acc.record(case, True, ["real.inconclusive_timeout"])
            return []
        res = res2
    fails = []
    shape = f"real|{case['kind']}|req{case['req']}"
    if not res.get("fault_reached") and res["outcome"] == "returned":
        acc.record(case, False, ["real.fault_not_reached"])
        return []
    if res["outcome"] in ("hang", "hang_in_setup"):
        fails.append(Failure("C14.hang", f"C14.hang|{shape}", f"run() did not end within 90 s (twice); {case}"))
    else:
        if res["outcome"] == "returned" and not res.get("error_logged"):
            fails.append(Failure("C14.silent", f"C14.silent|{shape}", f"run() returned without raising or logging an error; {case}"))
        for sid in ("A", "B", "C"):
            if sid == case["sim"]:
                continue
            n = res["finalized"].get(sid, 0)
            if n != 1:
                fails.append(Failure("C14.not_stopped" if n == 0 else "C14.stopped_twice",
                                     f"C14.{'not_stopped' if n == 0 else 'stopped_twice'}|{shape}",
                                     f"real process {sid} was finalized {n} times after {case['sim']} failed; {case}"))
        if res["alive_after"]:
            fails.append(Failure("C14.process_left", f"C14.process_left|{shape}",
                                 f"simulator processes {res['alive_after']} still alive 10 s after run() ended; {case}"))
        if res["loop_closed"] is False:
            fails.append(Failure("C14.loop_open", f"C14.loop_open|{shape}", f"world.loop not closed; {case}"))
        if res["fd_delta"] > 0:
            fails.append(Failure("C14.fd_leak", f"C14.fd_leak|{shape}", f"{res['fd_delta']} file descriptors more than before the case; {case}"))
    acc.record(case, case["req"] >= 1, ["real." + case["kind"], "real.outcome." + str(res["outcome"]).split(":")[0]])
    for f in fails:
        f["case"] = case
    return acc.triage(fails)


def real_cases(tier):
    for sim in ("A", "B", "C"):
        for req in (0, 1, 2, 3, 5):
            for kind in ("exit", "raise"):
                if tier == "quick" and (req in (3, 5) and sim == "C"):
                    continue
                yield {"real": True, "sim": sim, "req": req, "kind": kind}


# an in-process simulator can fail with any exception type, also with one mosaik itself uses for lost connections
LOCAL_KINDS = ["raise", "raise_conn", "raise_eof", "raise_timeout", "raise_key"]


def shards(tier, seed):
    return schedprops.std_shards(PROP, tier, seed)


def shard(prop, tier, seed, shard, nshards):
    acc = core.Acc(PROP, budget_s=200 if tier == "quick" else 1500)
    i = 0
    for name, scn in base_scenarios():
        counts = request_counts(scn)
        for sm in scn["sims"]:
            # close_after: the process dies *between* two requests (the request is answered, then the connection closes)
            kinds = LOCAL_KINDS if sm.get("transport") != "mem" else ["raise", "close", "reset", "close_after"]
            if sm.get("transport") != "mem":
                # the very last point of a run: an in-process simulator raises in its finalize()
                i += 1
                if i % nshards == shard and not acc.out_of_time():
                    case = {"scenario": scn, "schedule": dict(SCHEDULES[0], shutdown="release"),
                            "faults": [{"sim": sm["sid"], "req": "finalize", "kind": "raise"}]}
                    for f in check_case(case, acc):
                        if len(acc.failures) < 30:
                            acc.failures.append(f)
            for req in range(counts.get(sm["sid"], 0)):
                for kind in kinds:
                    for sched in (SCHEDULES if tier == "thorough" else SCHEDULES[:2]):
                        for sd in ("release", "hold"):
                            i += 1
                            if i % nshards != shard or acc.out_of_time():
                                continue
                            case = {"scenario": scn, "schedule": dict(sched, shutdown=sd),
                                    "faults": [{"sim": sm["sid"], "req": req, "kind": kind,
                                                "last": req == counts.get(sm["sid"], 0) - 1}]}
                            for f in check_case(case, acc):
                                if len(acc.failures) < 30:
                                    acc.failures.append(f)
                    # the progress displays of run(): the default bar and one bar per simulator ('individual');
                    # their bookkeeping runs in the very finally-clause that has to reach shutdown()
                    for pp in (True, "individual"):
                        i += 1
                        if i % nshards != shard or acc.out_of_time():
                            continue
                        scn2 = dict(scn, run=dict(scn.get("run", {}), print_progress=pp, print_progress_default=True))
                        case = {"scenario": scn2, "schedule": dict(SCHEDULES[0], shutdown="release"),
                                "faults": [{"sim": sm["sid"], "req": req, "kind": kind,
                                            "last": req == counts.get(sm["sid"], 0) - 1}]}
                        for f in check_case(case, acc):
                            if len(acc.failures) < 30:
                                acc.failures.append(f)
    # real processes over TCP (sampled; wall-clock budgets, verdicts re-run once)
    for j, rc in enumerate(real_cases(tier)):
        if j % nshards != shard or acc.out_of_time():
            continue
        for f in check_case(rc, acc):
            if len(acc.failures) < 30:
                acc.failures.append(f)

    from hypothesis import strategies as st

    @st.composite
    def hcase(draw):
        c = draw(gen.cases(min_sims=2, debug_ok=False))
        sm = draw(st.sampled_from(c["scenario"]["sims"]))
        kind = draw(st.sampled_from(LOCAL_KINDS if sm.get("transport") != "mem" else ["raise", "close", "reset", "raise_conn", "close_after"]))
        # (generated scenarios: whether the request is the simulator's last one is not known in advance, so a silent
        # end after close_after is not judged there)
        c["faults"] = [{"sim": sm["sid"], "req": draw(st.integers(0, 8)), "kind": kind, "last": True}]
        c["schedule"]["shutdown"] = draw(st.sampled_from(["release", "hold"]))
        return c

    core.drive(hcase(), check_case, acc, 120 if tier == "quick" else 2000, seed * 1000 + shard)
    return acc

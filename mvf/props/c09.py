"""C09 Same-time loop guard."""
from __future__ import annotations

import copy
import re

from mvf import core, gen, harness, schedprops
from mvf.core import Failure
from mvf.gen import _sim, _c

PROP = "C09"
LEVEL = "exploration"
RULE = ("grid of same-time (weak) loops: 2-4 simulators in a group at nesting tier 1 or 2, exactly one weak edge "
        "per cycle, loop budget L in {max-2..max+2}, max_loop_iterations in {1,2,3,5,10,100}, loops at several "
        "integer times, 8 schedules each (fifo, lifo, starve each member, prefer step/get, picks), loops at two tiers "
        "through the same simulators (two inner loops in sub-groups, one outer loop in the enclosing group), plus "
        "Hypothesis-generated loops embedded in larger scenarios; differential oracle: the same case with the "
        "guard far away (max_loop_iterations=10^6) tells how many sub-steps each simulator needs per time step; "
        "if some simulator needs more than max: run() must raise SimulationError naming a simulator of the loop and "
        "nobody may begin more than max sub-steps of one time; otherwise the run must complete with the same "
        "per-simulator sequences as the unguarded run. non-trivial = needed sub-steps within +-1 of the bound; "
        "distinct = distinct case hashes")
RULE += '; plus a no-loop family (one weak hop per time step closed by a time-shifted connection, runs longer than the bound) judged by the count-based claim'
ASSUMPTIONS = [
    "loops with exactly one weak edge per cycle (then 'number of sub-steps' and 'sub-tier value' coincide)",
    "the unguarded reference run is the same code with max_loop_iterations=10^6",
]


def loop_scenario(n, tier, budget, maxit, until=3, selfstep=True, future=False):
    names = ["A", "B", "C", "D"][:n]
    sims = []
    for i, s in enumerate(names):
        sims.append(_sim(s, "event-based", steps=[1] if (selfstep and i == 0) else [0], emit=[1], budget=budget))
    if future:
        # the head announces its outputs for the next time step (future output time) in every sub-step: the loop
        # over the weak edge goes on in the same time, the plain edge re-enters it one step later
        sims[0]["beh"]["future"] = [1]
        sims[0]["beh"]["steps"] = [0]
    conns = []
    for i in range(n - 1):
        conns.append(_c(names[i], "eo", names[i + 1], "ti"))
    conns.append(_c(names[-1], "eo", names[0], "ti", weak=True))
    if tier == "sib":
        tree = [[[x] for x in names]]        # every member in its own sub-group of one common group
    elif tier == "mixed":
        tree = [[names[0], [x for x in names[1:]]]]   # head in the outer group, the rest nested
    else:
        tree = list(names)
        for _ in range(tier):
            tree = [tree]
    # an observer outside the loop's group that must see time advance normally
    sims.append(_sim("Z", "time-based", steps=[1]))
    conns.append(_c(names[0], "eo", "Z", "mi"))
    tree = tree + ["Z"]
    return {"tree": tree, "sims": sims, "conns": conns, "initial_events": {names[0]: 0}, "until": until,
            "world": {"cache": True, "max_loop_iterations": maxit}, "run": {"lazy_stepping": True}}


def nested_loops(ba, bb, bc, bd, maxit, until=2):
    """two inner same-time loops A<->B and C<->D in sub-groups of one group, and an outer same-time loop
    A -> C -weak-> A at the tier of the enclosing group whose members all sit in inner loops, too"""
    sims = [_sim("A", "event-based", steps=[1], emit=[1], budget=ba), _sim("B", "event-based", steps=[0], emit=[1], budget=bb),
            _sim("C", "event-based", steps=[0], emit=[1], budget=bc), _sim("D", "event-based", steps=[0], emit=[1], budget=bd),
            _sim("Z", "time-based", steps=[1])]
    conns = [_c("A", "eo", "B", "ti"), _c("B", "eo", "A", "ti", weak=True), _c("C", "eo", "D", "ti"),
             _c("D", "eo", "C", "ti", weak=True), _c("A", "eo", "C", "ti"), _c("C", "eo", "A", "ti", weak=True),
             _c("A", "eo", "Z", "mi")]
    return {"tree": [[["A", "B"], ["C", "D"]], "Z"], "sims": sims, "conns": conns, "initial_events": {"A": 0},
            "until": until, "world": {"cache": True, "max_loop_iterations": maxit}, "run": {"lazy_stepping": True}}


def shifted_weak_pair(maxit, until, n=2):
    """one weak hop per time step: A -weak-> B (-> C) in one group, the last one feeds A over a *time-shifted*
    connection, so every simulator performs exactly one (sub-)step per time step and nothing ever loops"""
    names = ["A", "B", "C"][:n]
    sims = [_sim(x, "event-based", steps=[0], emit=[1], budget=5) for x in names]
    conns = [_c(names[0], "eo", names[1], "ti", weak=True)]
    for i in range(1, n - 1):
        conns.append(_c(names[i], "eo", names[i + 1], "ti"))
    conns.append(_c(names[-1], "eo", names[0], "ti", shift=1))
    return {"tree": [list(names)], "sims": sims, "conns": conns, "initial_events": {names[0]: 0}, "until": until,
            "world": {"cache": True, "max_loop_iterations": maxit}, "run": {"lazy_stepping": True}}


def carried_subtier(case, res, maxit):
    """F26's shape: a time-shifted connection between two simulators of one (non-root) group is on a cycle with a weak
    connection, and in the run no simulator began more than `maxit` steps at any one time (the tier value named in
    the error was carried over from earlier time steps by the time-shifted connection, it does not count sub-steps
    of this time step)"""
    scn = case["scenario"]
    groups = harness.sim_groups(scn)
    inside = [c for c in scn["conns"] if c.get("shift") and not c.get("weak")
              and len(groups[c["src"]]) >= 1 and groups[c["src"]] == groups[c["dst"]]]   # path () = not in a group
    if not inside or not any(c.get("weak") for c in scn["conns"]):
        return False
    return all(v <= maxit for v in substeps(res).values())


def substeps(res):
    cnt = {}
    for e in res.trace:
        if e[0] == "step_begin":
            cnt[(e[1], e[2])] = cnt.get((e[1], e[2]), 0) + 1
    return cnt


def analyse(case, res):
    scn = case["scenario"]
    maxit = scn.get("world", {}).get("max_loop_iterations", 100)
    ref_case = copy.deepcopy(case)
    ref_case["scenario"]["world"]["max_loop_iterations"] = 10 ** 6
    ref = harness.run_case(ref_case)
    if ref.outcome != "returned" or res.outcome in ("rejected", "build_error"):
        return [], False, ["aborted_by_other_property" if ref.outcome != "returned" else "rejected"]
    if res.outcome == "exception" and schedprops.exc_class(res) == "AssertionError:incomparable":
        # the open finding F05 (two paths with incomparable delays; which of two runs of one scenario hits the
        # assertion depends on set iteration order) is C05's and C06's business, not a verdict about the loop guard
        return [], False, ["aborted_by_other_property"]
    need = substeps(ref)
    if not case.get("strict_count"):
        # Generated scenarios (nested groups, several weak edges, weak edges outside cycles): the number of steps
        # at one integer time and the sub-step index differ, the statement's bound is only unambiguous per
        # sub-tier.  "needed" = highest sub-step index + 1 per simulator, taken from the reference monitor's
        # labels of the unguarded run (own tiered time, DESIGN 2.3).
        from mvf import monitor
        mon = monitor.Monitor(ref_case["scenario"])
        mon.run(ref)
        need = {}
        for sid, ls in mon.begun.items():
            for L in ls:
                if len(L) > 1:
                    need[(sid, L[0])] = max(need.get((sid, L[0]), 0), max(L[1:]) + 1)
    worst = max(need.values()) if need else 0
    got = substeps(res)
    fails = []
    over = {k: v for k, v in need.items() if v > maxit}
    if over:
        if res.outcome == "returned":
            fails.append(Failure("C09.not_stopped", "C09.not_stopped",
                                 f"{sorted(over.items())[:3]} need more than max_loop_iterations={maxit} sub-steps but "
                                 f"run() completed"))
        elif res.outcome == "exception" and res.is_a("SimulationError"):
            # the statement fixes the exception type and that the message names the simulator, not the wording:
            # every simulator id that occurs as a token of the message counts as named
            tokens = set(re.findall(r"[A-Za-z0-9_.\-]+", res.exc_msg or ""))
            tokens |= {t.strip(".") for t in tokens}
            named = sorted(s["sid"] for s in scn["sims"] if s["sid"] in tokens)
            if not set(named) & {k[0] for k in over}:
                fails.append(Failure("C09.wrong_simulator_named", "C09.wrong_simulator_named",
                                     f"error names {named}, simulators over the bound: {sorted({k[0] for k in over})}"))
        elif res.outcome in ("deadlock", "livelock", "runaway"):
            fails.append(Failure("C09.not_stopped", f"C09.not_stopped|{res.outcome}",
                                 f"loop over the bound ended in {res.outcome} instead of SimulationError"))
        else:
            fails.append(Failure("C09.wrong_error", "C09.wrong_error",
                                 f"expected SimulationError about sub-steps, got {res.outcome} {res.exc_type}: {res.exc_msg}"))
        too_many = {k: v for k, v in got.items() if v > maxit}
        if too_many and case.get("strict_count"):
            fails.append(Failure("C09.not_stopped", "C09.not_stopped|executed",
                                 f"{sorted(too_many.items())[:3]} executed more than {maxit} sub-steps of one time"))
    else:
        if res.outcome != "returned":
            sig_i = "C09.interrupted"
            if (res.outcome == "exception" and res.is_a("SimulationError") and case.get("strict_count")
                    and carried_subtier(case, res, maxit)):
                sig_i = "C09.interrupted|subtier_carried_over_by_time_shifted_connection"
            fails.append(Failure("C09.interrupted", sig_i,
                                 f"no simulator needs more than {worst} <= max_loop_iterations={maxit} sub-steps, but run() "
                                 f"ended with {res.outcome} {res.exc_type}: {res.exc_msg}"))
        elif core.jnorm(res.per_sim_sequences()) != core.jnorm(ref.per_sim_sequences()):
            fails.append(Failure("C09.time_stalls", "C09.time_stalls",
                                 "the guarded run differs from the unguarded run although the loop settles within the bound"))
    nontrivial = abs(worst - maxit) <= 1
    extra = ["over_bound" if over else "within_bound", f"max={maxit}"]
    return fails, nontrivial, extra


check_case = schedprops.make_check_case(analyse)

SCHEDULES = [{}, {"policy": "lifo"}, {"policy": "starve", "arg": "A"}, {"policy": "starve", "arg": "B"},
             {"policy": "prefer", "arg": "step"}, {"policy": "prefer", "arg": "get"},
             {"picks": [1, 0, 2, 1, 1, 0, 2, 2, 1, 0, 1, 1]}, {"picks": [2, 2, 1, 0, 0, 1, 2, 0, 1, 2], "policy": "lifo"}]


def grid(tier):
    maxes = [1, 2, 3, 5, 10, 100] if tier == "thorough" else [1, 2, 3, 5, 10, 100]
    for n in (2, 3, 4):
        for t in (1, 2, "sib", "mixed"):
            for maxit in maxes:
                for d in (-2, -1, 0, 1, 2):
                    budget = maxit + d
                    if budget < 1:
                        continue
                    if maxit == 100 and tier == "quick" and (n != 2 or t != 1):
                        continue
                    if t in ("sib", "mixed") and maxit in (5, 10) and tier == "quick":
                        continue
                    yield n, t, budget, maxit


def shards(tier, seed):
    return schedprops.std_shards(PROP, tier, seed)


def shard(prop, tier, seed, shard, nshards):
    acc = core.Acc(PROP, budget_s=200 if tier == "quick" else 1500)
    i = 0
    for n, t, budget, maxit in grid(tier):
        for sched in SCHEDULES:
            i += 1
            if i % nshards != shard or acc.out_of_time():
                continue
            case = {"scenario": loop_scenario(n, t, budget, maxit, until=2 if maxit == 100 else 3), "schedule": sched,
                    "strict_count": True}
            for f in check_case(case, acc):
                if len(acc.failures) < 20:
                    acc.failures.append(f)
            if maxit > 10 or n != 2:
                continue
            # same loop with outputs announced for future times (judged per sub-tier, see 10.4/1)
            case = {"scenario": loop_scenario(n, t, budget, maxit, until=5, future=True), "schedule": sched}
            for f in check_case(case, acc):
                if len(acc.failures) < 20:
                    acc.failures.append(f)

    # no loop at all: one weak hop per time step, closed by a time-shifted connection (every simulator performs one
    # sub-step per time step, so the guard must never fire, for any bound and any length of the run)
    # (bound >= 2: a simulator that is only reached over a weak connection starts at sub-step index 1, which is the
    # index-versus-count ambiguity of DESIGN 10.4/1 and not judged)
    for maxit in (2, 3, 5):
        for n in (2, 3):
            for until in (maxit + 3, 3 * maxit + 4):
                for sched in SCHEDULES[:3]:
                    i += 1
                    if i % nshards != shard or acc.out_of_time():
                        continue
                    case = {"scenario": shifted_weak_pair(maxit, until, n), "schedule": sched, "strict_count": True}
                    for f in check_case(case, acc):
                        if len(acc.failures) < 20:
                            acc.failures.append(f)

    # loops at two tiers through the same simulators (inner loops in sub-groups, outer loop in the enclosing group)
    for maxit in (4, 5, 8):
        for k in range(maxit - 2, maxit + 3):
            for shape in ((k, 1, k, 1), (k, 2, k, 2), (k, k, k, k), (1, k, 1, k)):
                for sched in SCHEDULES[:4]:
                    i += 1
                    if i % nshards != shard or acc.out_of_time():
                        continue
                    case = {"scenario": nested_loops(*shape, maxit), "schedule": sched}
                    for f in check_case(case, acc):
                        if len(acc.failures) < 20:
                            acc.failures.append(f)

    # generated scenarios with weak loops inside larger scenarios and small guards
    from hypothesis import strategies as st

    @st.composite
    def hcase(draw):
        c = draw(gen.cases(min_sims=2, debug_ok=False, future_ok=True))
        scn = c["scenario"]
        scn["world"]["max_loop_iterations"] = draw(st.sampled_from([1, 2, 3, 4]))
        for s in scn["sims"]:
            if "budget" in s["beh"]:
                s["beh"]["budget"] = draw(st.integers(1, 5))
        return c

    core.drive(hcase(), check_case, acc, 150 if tier == "quick" else 8000, seed * 1000 + shard)
    return acc

"""C07 max_advance is a sound promise."""
from __future__ import annotations

from mvf import core, gen, schedprops

PROP = "C07"
LEVEL = "exploration"
RULE = ("Hypothesis-generated (scenario, schedule) cases biased to trigger chains into event-based/hybrid simulators "
        "(sparse outputs, future output times, ancestors in flight when max_advance is computed, forced by "
        "starve/lifo schedules); the history monitor records the cause set of every executed step (self-schedule, "
        "trigger output of which step, transitively) and checks for every step(t, max_advance=m): m <= until, m == "
        "until without trigger inputs, and every cause of a later step in (t, m] is traceable to a step of the "
        "simulator itself at or after t. non-trigivial = a simulator with a trigger input was promised m < until "
        "at least once and >= 2 replies were pending at once; distinct = distinct case hashes"
        "; in addition six long runs (until 80 / 120 / 1100, strides of hundreds, 24 simulators) under FIFO, LIFO and a starved simulator, and the "
        "extreme policies (LIFO, steps first, get_data first, each simulator starved) before every schedule enumeration")
ASSUMPTIONS = [
    "non-real-time runs; 'outside its own control' = cause chains visible to the monitor (outputs, self-schedules)",
    "scripted simulators",
]


def analyse(case, res):
    if res.outcome in ("rejected", "build_error"):
        return [], False, []
    fails, mon, other = schedprops.monitor_failures(case, res, "C07")
    extra = ["aborted_by_other_property"] if schedprops.aborted_by_other(res) else []
    st = mon.stats
    if st["promises_lt_until"]:
        extra.append("promise_lt_until")
    nontrivial = st["promises_lt_until"] > 0 and res.stats.get("max_pending", 0) >= 2
    return fails, nontrivial, extra


check_case = schedprops.make_check_case(analyse)


def shards(tier, seed):
    return schedprops.std_shards(PROP, tier, seed)


def shard(prop, tier, seed, shard, nshards):
    acc = core.Acc(PROP, budget_s=150 if tier == "quick" else 1500)
    n = 300 if tier == "quick" else 15000
    core.drive(gen.cases(min_sims=2, types=("event-based", "hybrid", "hybrid", "time-based"), debug_ok=False),
               check_case, acc, n, seed * 1000 + shard)
    if tier == "thorough":
        # a minority of oversized scenarios (up to 7 simulators, until 12, 12 connections)
        core.drive(gen.cases(min_sims=4, max_sims=7, max_until=12, max_conns=12, debug_ok=False), check_case, acc,
                   n // 8, seed * 1000 + 900 + shard)
    micro = sorted(gen.micro_scenarios().items())
    runs, complete = 0, True
    for i, (name, scn) in enumerate(micro):
        if i % nshards != shard:
            continue
        for lazy in (True, False):
            s = dict(scn, run={"lazy_stepping": lazy})
            r, c = schedprops.enumerate_schedules(s, check_case, acc, 2 if tier == "quick" else 3,
                                                  max_runs=800 if tier == "quick" else 30000)
            runs += r
            complete = complete and c
    acc.extra["enumerated_schedule_runs"] = runs
    acc.extra["enumeration_complete"] = complete
    schedprops.run_long(check_case, acc, shard, nshards)
    return acc

"""C16 Asynchronous requests (set_data / get_data)."""
from __future__ import annotations

import copy

from mvf import core, gen, harness, schedprops
from mvf.core import Failure
from mvf.gen import _sim, _c

PROP = "C16"
LEVEL = "exploration"
RULE = ("Hypothesis-generated scenarios: a controller A (time-based/hybrid) with 1-3 agents connected with "
        "async_requests=True, step-size ratios 1:1..1:4 both ways, agents call set_data sparsely (mask per step), "
        "several agents write one entity/attribute, agents also call async get_data, local and in-memory-remote "
        "agents, random/adversarial schedules + deviation-bounded exhaustive schedules on micro-scenarios; negative "
        "cases: calls towards a simulator without a connection / without the flag. Oracle on the trace: the inputs "
        "of each step of A contain exactly the set_data values accepted since A's previous step (latest per slot, "
        "never twice, never missing); A never begins a step later than t while an agent's step at t is unfinished; "
        "refused calls fail with ScenarioError (remote: RemoteException of that type) and leave no effect. "
        "non-trivial = (>= 2 agents or an agent stepping more often than A) with a set_data delivered and a "
        "non-FIFO release; distinct = distinct case hashes")
RULE += '; set_data values are strings, JSON objects with changing key sets or lists'
ASSUMPTIONS = [
    "values returned by asynchronous get_data are recorded, not judged (the statement is silent)",
    "a set_data value counts from the moment the call returned to the agent",
]


def build(nag, a_steps, ag_steps, masks, gets, transports, a_type="time-based", until=6, extra_conn=True,
          conn_kind="plain", same_call=False):
    sims = [_sim("A", a_type, steps=a_steps)]
    conns, asyncs = [], []
    for i in range(nag):
        sid = f"B{i}"
        acts = {}
        for k in range(12):
            a = []
            if masks[i][k % len(masks[i])]:
                a.append(["set", "A.e0", "mi"])
            if gets[i][k % len(gets[i])]:
                a.append(["get", "A.e0", "po"])
            if a:
                acts[str(k)] = a
        s = _sim(sid, "time-based", steps=ag_steps[i])
        s["beh"]["async"] = acts
        if transports[i]:
            s["transport"] = "mem"
        sims.append(s)
        # the data-flow that accompanies the async_requests flag: plain, or only time-shifted / weak ones
        if conn_kind == "shift":
            conns.append(_c("A", "po", sid, "mi", shift=1, init=True))
        elif conn_kind == "weak":
            conns.append(_c("A", "po", sid, "mi", weak=True, init=True))
        else:
            conns.append(_c("A", "po", sid, "mi"))
        if same_call:
            conns[-1]["async"] = True        # async_requests=True on the very call that makes the data-flow
        asyncs.append(["A", sid])
    return {"tree": [s["sid"] for s in sims], "sims": sims, "conns": conns, "async": asyncs,
            "initial_events": {}, "until": until, "world": {"cache": True}, "run": {"lazy_stepping": True}}


def is_set_value(val):
    """values sent with set_data carry a 'set:' token (as a string, or inside an object / list)"""
    import json
    try:
        return "set:" in json.dumps(val)
    except Exception:  # noqa
        return False


def analyse(case, res):
    scn = case["scenario"]
    agents = [a[1] for a in scn.get("async", [])]
    fails = []
    if case.get("negative"):
        return analyse_negative(case, res)
    if res.outcome != "returned":
        # completion is C05's business; an AssertionError from the debug wrapper etc. still counts here
        fails.append(Failure("C16.run_failed", f"C16.run_failed|{schedprops.exc_class(res)}|debug={bool(scn.get('world', {}).get('debug'))}",
                             f"run() ended with {res.outcome} {res.exc_type}: {res.exc_msg}"))
    pending = {}          # slot (src_full, attr) -> value accepted since A's previous step
    inflight = {}         # agent -> time of its unfinished step
    last_a = None
    collected = None
    delivered = 0
    pend_attr = {}
    for e in res.trace:
        k = e[0]
        if k == "step_begin" and e[1] in agents:
            inflight[e[1]] = e[2]
        elif k == "step_end" and e[1] in agents:
            inflight.pop(e[1], None)
        elif k == "async_set":
            pend_attr[e[1]] = e[2]
        elif k == "async_set_ok":
            payload = pend_attr.pop(e[1], {})
            for src_full, dests in payload.items():
                for dest_full, attrs in dests.items():
                    for attr, val in attrs.items():
                        pending[(src_full, dest_full.split(".", 1)[1], attr)] = val
        elif k == "dispatch" and e[1] == "A":
            # a remote controller: mosaik collected the inputs of this step now; what an agent sets from here on
            # belongs to the following step
            collected = dict(pending)
            pending = {}
        elif k == "step_begin" and e[1] == "A":
            t, inputs = e[2], e[3]
            if collected is not None:
                pending, later = collected, pending
            else:
                later = {}
            for ag, ta in inflight.items():
                if ta < t:
                    fails.append(Failure("C16.order", "C16.order",
                                         f"A began step {t} while agent {ag}'s step at {ta} is unfinished"))
            got = {}
            for eid, attrs in inputs.items():
                for attr, srcs in attrs.items():
                    for src, val in srcs.items():
                        if is_set_value(val):
                            got[(src, eid, attr)] = val
            want = dict(pending)
            if got != want:
                missing = {kk: v for kk, v in want.items() if got.get(kk) != v}
                extra = {kk: v for kk, v in got.items() if want.get(kk) != v}
                rule = "C16.delivery"
                detail = "lost" if missing and not extra else ("repeated_or_foreign" if extra and not missing else "wrong")
                fails.append(Failure(rule, f"C16.delivery|{detail}",
                                     f"A@{t}: set_data values in inputs {got}, expected {want}"))
            delivered += len(want)
            pending = later
            collected = None
    nontrivial = (len(agents) >= 2 or any(
        min(s["beh"]["steps"]) < min(scn["sims"][0]["beh"]["steps"]) for s in scn["sims"][1:])) \
        and delivered > 0 and res.stats.get("nonfifo", 0) > 0
    return fails, nontrivial, [f"agents={len(agents)}", "delivered" if delivered else "no_delivery"]


def analyse_negative(case, res):
    neg = case["negative"]       # {'agent': sid, 'call': 'set'|'get', 'target': sid, 'why': 'no_connection'|'no_flag'}
    ag = neg["agent"]
    transport = {s["sid"]: s.get("transport", "local") for s in case["scenario"]["sims"]}[ag]
    errs = [e for e in res.trace if e[0] == "async_err" and e[1] == ag]
    oks = [e for e in res.trace if e[0] in ("async_set_ok", "async_get_ok") and e[1] == ag]
    fails = []
    shape = f"{neg['call']}|{neg['why']}|{transport}"
    if oks:
        fails.append(Failure("C16.refusal", f"C16.refusal|accepted|{shape}",
                             f"{neg['call']}_data from {ag} towards {neg['target']} ({neg['why']}) was accepted"))
    elif transport == "local" and not errs:
        # in-process: the error is raised to the caller of run() (the generator never sees it)
        if not res.is_a("ScenarioError"):
            fails.append(Failure("C16.refusal", f"C16.refusal|wrong_error|{shape}",
                                 f"run() ended with {res.outcome} {res.exc_type}: {res.exc_msg}"))
    elif not errs:
        fails.append(Failure("C16.refusal", f"C16.refusal|no_error|{shape}", f"no error reached the agent: {res.outcome} {res.exc_msg}"))
    else:
        e = errs[0]
        # in-process: any subclass of ScenarioError is a ScenarioError; remote: the type named on the wire
        etypes = (e[6] if len(e) > 6 else [e[3]]) if transport == "local" else [e[5]]
        if "ScenarioError" not in etypes:
            fails.append(Failure("C16.refusal", f"C16.refusal|wrong_error|{shape}",
                                 f"refused with {e[3]} (remote type {e[5]}): {e[4]}"))
    # no effect: the target never sees a set: value
    for e in res.trace:
        if e[0] == "step_begin" and e[1] == neg["target"] and "set:" in str(e[3]):
            fails.append(Failure("C16.refusal", f"C16.refusal|effect|{shape}", f"the refused value reached {neg['target']}: {e[3]}"))
            break
    return fails, True, ["negative." + shape]


check_case = schedprops.make_check_case(analyse)


def micro():
    out = []
    out.append(build(1, [1], [[1]], [[1]], [[0]], [0], until=4))
    out.append(build(2, [2], [[1], [2]], [[1, 0], [1]], [[0], [1]], [0, 1], until=5))
    out.append(build(2, [1], [[2], [3]], [[1], [1, 1, 0]], [[1], [0]], [1, 1], a_type="hybrid", until=6))
    out.append(build(1, [1], [[1]], [[1]], [[0]], [0], until=5, conn_kind="shift"))
    w = build(2, [1], [[1], [2]], [[1], [1]], [[0], [0]], [0, 1], until=4, conn_kind="weak")
    w["tree"] = [w["tree"]]
    out.append(w)
    # the flag given on the same connect() call as a plain / time-shifted / weak data-flow, remote controller
    out.append(build(1, [1], [[1]], [[1]], [[0]], [0], until=4, same_call=True))
    sc = build(1, [1], [[1]], [[1]], [[0]], [0], until=4, conn_kind="shift", same_call=True)
    sc["sims"][0]["transport"] = "mem"
    out.append(sc)
    sw = build(1, [1], [[1]], [[1]], [[0]], [1], until=4, conn_kind="weak", same_call=True)
    sw["tree"] = [sw["tree"]]
    out.append(sw)
    # object-valued set_data, the agent steps (and writes) twice between two steps of the controller, the second
    # object lacks a key of the first
    ov = build(1, [2], [[1]], [[1]], [[0]], [0], until=6)
    ov["sims"][1]["beh"]["vstyle"] = "dict"
    out.append(ov)
    ov2 = build(2, [3], [[1], [2]], [[1], [1]], [[0], [0]], [0, 1], until=7)
    ov2["sims"][1]["beh"]["vstyle"] = "dict"
    ov2["sims"][2]["beh"]["vstyle"] = "list"
    out.append(ov2)
    # the written attribute also has an ordinary persistent source, cache off (values remembered by mosaik)
    out.append(with_producer(build(1, [1], [[1]], [[1, 0]], [[0]], [0], until=4), [2], cache=False))
    out.append(with_producer(build(2, [2], [[1], [1]], [[1], [0, 1]], [[0], [0]], [0, 1], until=5), [1], cache=True))
    return out


def with_producer(scn, p_steps, cache):
    """a further simulator P feeds the attribute that the agents write with set_data through an ordinary
    persistent connection"""
    scn["sims"].append(_sim("P", "time-based", steps=p_steps))
    scn["tree"].append("P")
    scn["conns"].append(_c("P", "po", "A", "mi"))
    scn["world"]["cache"] = cache
    return scn


def negatives():
    cases = []
    for transport in (0, 1):
        for call in ("set", "get"):
            # X is connected to nobody (no_connection); Y gets data from A but without the flag (no_flag)
            base = build(1, [1], [[1]], [[0]], [[0]], [transport], until=3)
            for why in ("no_connection", "no_flag"):
                scn = copy.deepcopy(base)
                tgt = _sim("X", "time-based", steps=[1])
                scn["sims"].append(tgt)
                scn["tree"].append("X")
                agent = _sim("N", "time-based", steps=[1])
                if transport:
                    agent["transport"] = "mem"
                attr = "mi" if call == "set" else "po"
                other = "get" if call == "set" else "set"
                oattr = "mi" if other == "set" else "po"
                # the first illegal request and later ones (a remote agent can catch the refusal and go on)
                agent["beh"]["async"] = {"1": [[call, "X.e0", attr]], "2": [[call, "X.e0", attr]],
                                         "3": [[other, "X.e0", oattr], [call, "X.e0", attr]]}
                agent["beh"]["reraise"] = False
                scn["until"] = 5
                scn["sims"].append(agent)
                scn["tree"].append("N")
                if why == "no_flag":
                    scn["conns"].append(_c("X", "po", "N", "mi"))
                cases.append({"scenario": scn, "schedule": {},
                              "negative": {"agent": "N", "call": call, "target": "X", "why": why}})
    return cases


def shards(tier, seed):
    return schedprops.std_shards(PROP, tier, seed)


def shard(prop, tier, seed, shard, nshards):
    from hypothesis import strategies as st
    acc = core.Acc(PROP, budget_s=200 if tier == "quick" else 1500)

    @st.composite
    def hcase(draw):
        nag = draw(st.integers(1, 3))
        a_steps = draw(st.lists(st.integers(1, 4), min_size=1, max_size=2))
        ag_steps = [draw(st.lists(st.integers(1, 4), min_size=1, max_size=2)) for _ in range(nag)]
        masks = [draw(st.lists(st.integers(0, 1), min_size=1, max_size=4)) for _ in range(nag)]
        gets = [draw(st.lists(st.sampled_from([0, 0, 1]), min_size=1, max_size=3)) for _ in range(nag)]
        tr = [draw(st.sampled_from([0, 0, 1])) for _ in range(nag)]
        ck = draw(st.sampled_from(["plain", "plain", "shift", "weak"]))
        scn = build(nag, a_steps, ag_steps, masks, gets, tr, a_type=draw(st.sampled_from(["time-based", "hybrid"])),
                    until=draw(st.integers(2, 8)), conn_kind=ck, same_call=draw(st.booleans()))
        grouped = draw(st.sampled_from([0, 0, 1, 2])) if ck != "weak" else 1
        if grouped == 1:
            scn["tree"] = [scn["tree"]]                      # everybody in one group
        elif grouped == 2:
            scn["tree"] = [scn["tree"][:1], scn["tree"][1:]]  # controller and agents in sibling groups
        scn["world"]["cache"] = draw(st.booleans())
        if draw(st.integers(0, 2)) == 0:
            with_producer(scn, draw(st.lists(st.integers(1, 3), min_size=1, max_size=2)), scn["world"]["cache"])
        scn["run"]["lazy_stepping"] = draw(st.booleans())
        if draw(st.integers(0, 5)) == 0:
            scn["world"]["debug"] = True
        # the values sent with set_data: strings, or JSON objects whose key sets change from call to call, or lists
        for sm in scn["sims"][1:1 + nag]:
            vs = draw(st.sampled_from([None, None, "dict", "list"]))
            if vs:
                sm["beh"]["vstyle"] = vs
        return {"scenario": scn, "schedule": draw(gen.schedules(sids=[s["sid"] for s in scn["sims"]]))}

    core.drive(hcase(), check_case, acc, 200 if tier == "quick" else 8000, seed * 1000 + shard)
    runs, complete = 0, True
    for i, scn in enumerate(micro()):
        if i % nshards != shard:
            continue
        r, c = schedprops.enumerate_schedules(scn, check_case, acc, 2 if tier == "quick" else 3,
                                              max_runs=800 if tier == "quick" else 30000)
        runs += r
        complete = complete and c
    if shard == 3 % nshards:
        for case in negatives():
            for f in check_case(case, acc):
                acc.failures.append(f)
    acc.extra["enumerated_schedule_runs"] = runs
    acc.extra["enumeration_complete"] = complete
    return acc

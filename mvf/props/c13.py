"""C13 Runtime validation of simulator replies."""
from __future__ import annotations

import copy

from mvf import core, gen, harness, schedprops
from mvf.core import Failure

PROP = "C13"
LEVEL = "fault_enumeration"
RULE = ("fault enumeration: for each base scenario (pair, chain, diamond, shifted cycle, weak loop, trigger chain; "
        "local and in-memory remote) a fault-free run counts the steps of every simulator; then one malformed reply "
        "is injected at every (simulator, step index): next step in {float, numeric string, list, t, t-1, 0, "
        "negative, None for time-based}, output time in {t-1, 0 when t>0, negative}, under several schedules; plus "
        "Hypothesis-drawn (scenario, schedule, fault) triples; plus real-time runs (virtual clock) in which the "
        "offender has announced an event for a later time (set_event, in the faulty step or the one before) that is "
        "still pending when the malformed reply arrives. Oracle: run() raises an error whose text contains "
        "the simulator id, the offender gets no further step, no step below a simulator's previous step, loop "
        "closed. non-trivial = fault at step index >= 1 or in a simulator with a consumer; distinct = distinct "
        "(scenario, schedule, fault) hashes")
ASSUMPTIONS = [
    "one malformed reply per run; bool next steps and non-integer output times are generated and recorded only "
    "(the statement does not list them)",
]

NEXT_BAD = [["float", 1], ["float", 1, 1], ["str", 1], ["list", 1], ["rel", 0], ["rel", -1], ["abs", 0], ["abs", -3]]
TIME_BAD = [["rel", -1], ["abs", 0], ["abs", -2]]
RECORD_ONLY = [("next", ["bool", 1]), ("time", ["float", 1, 1])]


def inject(case, sid, k, where, bad):
    c = copy.deepcopy(case)
    for s in c["scenario"]["sims"]:
        if s["sid"] == sid:
            s["beh"].setdefault("bad_next" if where == "next" else "bad_time", {})[str(k)] = bad
    c["fault13"] = [sid, k, where, bad]
    return c


def is_malformed(where, bad, t, typ):
    """is the injected value really a violation of the API at step time t?"""
    kind = bad[0]
    if where == "next":
        if kind in ("float", "str", "list"):
            return True
        if kind == "none":
            return typ == "time-based"
        v = harness.eval_bad(bad, t)
        return v <= t
    v = harness.eval_bad(bad, t)
    return v < t


def analyse(case, res):
    sid, k, where, bad = case["fault13"]
    scn = case["scenario"]
    typ = {s["sid"]: s["type"] for s in scn["sims"]}[sid]
    steps = [e for e in res.trace if e[0] == "step_begin" and e[1] == sid]
    if len(steps) <= k:
        return [], False, ["fault_not_reached"]
    t = steps[k][2]
    # was the reply really sent? (get_data is only requested from simulators with connected outputs)
    if where == "time" and not any(c["src"] == sid for c in scn.get("conns", [])):
        return [], False, ["fault_not_reached"]
    if not is_malformed(where, bad, t, typ):
        # e.g. 'abs 0' at t=0 for an output time: legal
        ok = res.outcome == "returned"
        return [], False, ["value_legal_at_this_step" + ("" if ok else "_but_failed")]
    if (where, bad) in RECORD_ONLY or bad[0] == "bool":
        return [], False, [f"recorded_only.{res.outcome}"]
    fails = []
    shape = f"{where}:{bad[0]}" + ("" if bad[0] not in ("rel", "abs") else
                                   (":eq" if harness.eval_bad(bad, t) == t else ":lt"))
    if res.outcome == "returned":
        fails.append(Failure("C13.silent", f"C13.silent|{shape}|{typ}",
                             f"{sid} replied {where}={harness.eval_bad(bad, t)!r} at its step #{k} (t={t}) and run() returned normally"))
    elif res.outcome in ("deadlock", "livelock", "runaway"):
        fails.append(Failure("C13.hang", f"C13.hang|{shape}|{typ}",
                             f"{sid} replied {where}={harness.eval_bad(bad, t)!r} at t={t}: run() ended in {res.outcome}"))
    else:
        if sid not in (res.exc_msg or ""):
            fails.append(Failure("C13.anonymous", f"C13.anonymous|{shape}|{typ}|{res.exc_type}",
                                 f"{sid} replied {where}={harness.eval_bad(bad, t)!r} at t={t}: {res.exc_type}: "
                                 f"{res.exc_msg!r} does not identify the simulator"))
    if len(steps) > k + 1:
        fails.append(Failure("C13.continues", f"C13.continues|{shape}|{typ}",
                             f"{sid} was stepped again ({[e[2] for e in steps[k + 1:]]}) after its malformed reply at t={t}"))
    # no step in the past anywhere
    last = {}
    for e in res.trace:
        if e[0] == "step_begin":
            if e[1] in last and e[2] < last[e[1]]:
                fails.append(Failure("C13.step_in_past", f"C13.step_in_past|{shape}",
                                     f"{e[1]} stepped at {e[2]} after {last[e[1]]}"))
            last[e[1]] = e[2]
    if res.loop_closed is False or res.shutdown_hang:
        fails.append(Failure("C13.shutdown", "C13.shutdown", "loop not closed / shutdown hung after the error"))
    has_consumer = any(c["src"] == sid and c["dst"] != sid for c in scn.get("conns", []))
    return fails, (k >= 1 or has_consumer), [f"fault.{where}.{bad[0]}", "type." + typ]


check_case = schedprops.make_check_case(analyse)

SCHEDULES = [{}, {"policy": "lifo"}, {"picks": [1, 2, 0, 1, 2, 1, 0, 2]}]


def base_scenarios():
    m = gen.micro_scenarios()
    names = ["pair_tb", "chain3", "diamond", "shifted_cycle", "weak_loop", "trigger_chain", "two_kinds"]
    out = []
    for n in names:
        out.append((n, m[n]))
        s = copy.deepcopy(m[n])
        for sm in s["sims"]:
            sm["transport"] = "mem"
        out.append((n + "_mem", s))
    return out


def rt_scenarios():
    """small scenarios run in real-time mode on the virtual clock (set_event is only allowed there)"""
    from mvf.gen import _sim, _c
    run = {"lazy_stepping": True, "rt_factor": 0.5}
    out = []
    out.append(("rt_pair", {"tree": ["A", "B"], "sims": [_sim("A", "time-based", steps=[3]), _sim("B", "time-based", steps=[2])],
                            "conns": [_c("A", "po", "B", "mi")], "initial_events": {}, "until": 7,
                            "world": {"cache": True}, "run": dict(run)}))
    out.append(("rt_hybrid", {"tree": ["A", "B"], "sims": [_sim("A", "hybrid", steps=[3], emit=[1]),
                                                          _sim("B", "event-based", emit=[0])],
                              "conns": [_c("A", "eo", "B", "ti")], "initial_events": {}, "until": 7,
                              "world": {"cache": True}, "run": dict(run)}))
    out.append(("rt_single_mem", {"tree": ["A"], "sims": [dict(_sim("A", "time-based", steps=[2]), transport="mem")],
                                  "conns": [], "initial_events": {}, "until": 7,
                                  "world": {"cache": True}, "run": dict(run)}))
    return out


def shards(tier, seed):
    return schedprops.std_shards(PROP, tier, seed)


def shard(prop, tier, seed, shard, nshards):
    acc = core.Acc(PROP, budget_s=200 if tier == "quick" else 1500)
    i = 0
    for name, scn in base_scenarios():
        base = harness.run_case({"scenario": scn})
        counts = {}
        for e in base.trace:
            if e[0] == "step_begin":
                counts[e[1]] = counts.get(e[1], 0) + 1
        for sm in scn["sims"]:
            sid = sm["sid"]
            for k in range(counts.get(sid, 0)):
                bads = [("next", b) for b in NEXT_BAD] + [("time", b) for b in TIME_BAD] + RECORD_ONLY
                if sm["type"] == "time-based":
                    bads.append(("next", ["none"]))
                for where, bad in bads:
                    for sched in (SCHEDULES if tier == "thorough" else SCHEDULES[:2]):
                        i += 1
                        if i % nshards != shard or acc.out_of_time():
                            continue
                        case = inject({"scenario": scn, "schedule": sched}, sid, k, where, bad)
                        for f in check_case(case, acc):
                            if len(acc.failures) < 20:
                                acc.failures.append(f)
    # real-time mode: the same validation with an event the offender announced itself (set_event) still pending,
    # announced in the faulty step or in an earlier one
    for name, scn in rt_scenarios():
        base = harness.run_case({"scenario": scn, "schedule": {"timed": True}})
        times = {}
        for e in base.trace:
            if e[0] == "step_begin":
                times.setdefault(e[1], []).append(e[2])
        for sm in scn["sims"]:
            sid = sm["sid"]
            for k, t in enumerate(times.get(sid, [])):
                bads = [("next", b) for b in (NEXT_BAD[0], NEXT_BAD[4], NEXT_BAD[5])] + [("time", TIME_BAD[0])]
                if sm["type"] == "time-based":
                    bads.append(("next", ["none"]))
                for where, bad in bads:
                    for j in range(max(0, k - 1), k + 1):
                        for dt in (1, 2):
                            i += 1
                            if i % nshards != shard or acc.out_of_time() or t + dt >= scn["until"]:
                                continue
                            case = inject({"scenario": scn, "schedule": {"timed": True}}, sid, k, where, bad)
                            for s2 in case["scenario"]["sims"]:
                                if s2["sid"] == sid:
                                    s2["beh"].setdefault("async", {}).setdefault(str(j), []).append(["event", t + dt])
                            case["rt_pending_event"] = [j, t + dt]
                            for f in check_case(case, acc):
                                if len(acc.failures) < 20:
                                    acc.failures.append(f)
    from hypothesis import strategies as st

    @st.composite
    def hcase(draw):
        c = draw(gen.cases(min_sims=1, debug_ok=False))
        sm = draw(st.sampled_from(c["scenario"]["sims"]))
        k = draw(st.integers(0, 5))
        where = draw(st.sampled_from(["next", "next", "time"]))
        bad = draw(st.sampled_from(NEXT_BAD + ([["none"]] if sm["type"] == "time-based" else []))) \
            if where == "next" else draw(st.sampled_from(TIME_BAD))
        return inject(c, sm["sid"], k, where, bad)

    core.drive(hcase(), check_case, acc, 120 if tier == "quick" else 3000, seed * 1000 + shard)
    return acc

"""C11 Connection validation and group scoping.

Model-based testing of the public scenario API: a generated program of API calls (enter/leave
world.group(), start simulators with generated model descriptions, connect with valid and invalid
attribute names and all flag combinations) is interpreted against the real World and against a model
(dict of accepted data-flows).  The program is JSON, shrinks as one value and is the replay file.
"""
from __future__ import annotations

import itertools
import warnings

from mvf import core, reftime
from mvf.core import Failure
from mvf.props import c12, c06

PROP = "C11"
LEVEL = "exploration"
RULE = ("Hypothesis-generated programs of scenario-API calls (<= 14 operations: enter/leave world.group(), start a "
        "simulator whose model description is generated (type, attrs, trigger / non-persistent lists, any_inputs), "
        "connect(src, dst, 1-3 attribute pairs with valid and invalid names, time_shifted in {False, True, 1, 2}, "
        "weak, initial_data for a subset, async_requests)) for every placement of the two simulators in the group "
        "tree, interpreted against the real World and a model; plus the complete table placements x flags x "
        "attribute validity for single pairs. Oracle: ScenarioError iff (source attribute not an output) or "
        "(destination attribute not an input) or (shifted/weak into non-trigger without initial data) or (weak "
        "and the closest common group is the root); afterwards run() must show values exactly on the accepted "
        "slots, reject/accept cycles according to the accepted flows only, and entity_graph edges only from "
        "accepted pairs. Behavioural group scoping: a weak loop in one group and an observer in the same / nested / "
        "sibling / cousin / other-depth group, all observer kinds, several schedules; the history monitor with the "
        "reference group semantics decides whose sub-steps the observer may follow. Differential (metamorphic): a "
        "program containing calls with valid and invalid pairs must run exactly like the same program without the "
        "invalid pairs - or without the failing calls - (same outcome, same per-simulator sequence of (time, inputs)); "
        "complete table of such calls with a destination that steps by itself or only when triggered (hybrid, event-based). non-trivial = a connect call "
        "with >= 1 invalid and >= 1 valid pair, or simulators in different groups, or a scoping run with sub-steps; "
        "distinct = distinct programs / scenarios")
RULE += '; every table row also issued inside still open group blocks and with the string shorthand for equally named attributes'
ASSUMPTIONS = [
    "attribute classification of the generated descriptions is taken from C12's reference solver",
    "the statement does not say whether the valid pairs of a connect() call that raises are established (mosaik "
    "establishes them) or the whole call is void: both readings are accepted (the run must equal the clean program "
    "of one of them; only pairs of calls that returned normally are required to deliver data)",
    "connect calls that combine async_requests=True with an invalid pair are not generated (the statement is "
    "silent on whether the async relation of a failing call stays)",
]
NAMES = ("a", "b", "c", "z")


def mask_has(m, name):
    return bool(m >> NAMES.index(name) & 1)


def describe(typ, attrs, trigger, nonpers, any_inputs):
    d = {"public": True, "params": [], "attrs": list(attrs)}
    if trigger is not None:
        d["trigger"] = list(trigger)
    if nonpers is not None:
        d["non-persistent"] = list(nonpers)
    if any_inputs:
        d["any_inputs"] = True
    return d


def classify(typ, desc):
    g = lambda k: tuple(desc[k]) if k in desc else None  # noqa
    return c12.expected(g("attrs"), g("trigger"), g("non-trigger"), g("persistent"), g("non-persistent"),
                        desc.get("any_inputs"), typ)


class Interp:
    def __init__(self):
        from mvf import simple_sim
        warnings.simplefilter("ignore")
        simple_sim.LOG.clear()
        self.w = simple_sim.quiet_world()
        self.stack = []          # context managers
        self.path = ()
        self.counters = [0]
        self.sims = []           # dicts: sid, path, masks, entity
        self.accepted = {}       # slot (src sid, sattr, dst sid, dattr) -> kind info
        self.edges = []          # (src, dst, kind) for the cycle oracle
        self.pairs_touched = set()
        self.graph_edges = set()
        self.clean_ops = []
        self.clean_ops_atomic = []
        self.slot_feeds = {}     # (src entity, dst entity, dst attr) -> source attrs (two of them collide in one dict key)
        self.final = None
        self.fails = []
        self.stats = dict(mixed_calls=0, cross_group=0, rejected_calls=0, accepted_calls=0)

    def close(self):
        from mvf import simple_sim
        while self.stack:
            try:
                self.stack.pop().__exit__(None, None, None)
            except Exception:  # noqa
                pass
        simple_sim.close_world(self.w)

    def op(self, o):
        from mosaik.exceptions import ScenarioError
        k = o[0]
        if k != "connect":
            self.clean_ops.append(o)
            self.clean_ops_atomic.append(o)
        if k == "enter":
            if len(self.path) >= 2:
                return
            cm = self.w.group()
            cm.__enter__()
            self.stack.append(cm)
            self.path = self.path + (self.counters[-1],)
            self.counters[-1] += 1
            self.counters.append(0)
        elif k == "skip":
            # n empty sibling groups (so that later groups get a two-digit position among their siblings)
            if len(self.path) >= 2:
                return
            for _ in range(o[1]):
                with self.w.group():
                    pass
                self.counters[-1] += 1
        elif k == "leave":
            if not self.stack:
                return
            self.stack.pop().__exit__(None, None, None)
            self.path = self.path[:-1]
            self.counters.pop()
        elif k == "start":
            if len(self.sims) >= 5:
                return
            typ, desc = o[1], o[2]
            masks = classify(typ, desc)
            if masks is None:
                return
            sid = f"S{len(self.sims)}"
            meta = {"api_version": "3.0", "type": typ, "models": {"M": desc}}
            ents = None
            if len(o) > 3 and o[3] and o[3].get("no_self_step") and typ != "time-based":
                meta["mvf_no_self_step"] = True      # steps only when triggered (after the first step of a hybrid one)
            if len(o) > 3 and o[3] and "desc" in o[3]:
                # hierarchical entities: a second model N and children of mixed types [N, M] / [M, N]
                desc2, order = o[3]["desc"], o[3]["order"]
                masks2 = classify(typ, desc2)
                if masks2 is not None:
                    meta["models"]["N"] = dict(desc2, public=False)
                    meta["mvf_children"] = order
            fac = self.w.start("Meta", sim_id=sid, meta=meta)
            ent = fac.M.create(1)[0]
            rec = dict(sid=sid, path=self.path, masks=masks, ent=ent, typ=typ, ents=[(ent, masks)])
            if "mvf_children" in meta:
                # the model of every child is taken from the description that was sent, not from the Entity object
                for ch, cm in zip(ent.children, meta["mvf_children"]):
                    rec["ents"].append((ch, masks if cm == "M" else masks2))
            self.sims.append(rec)
        elif k == "connect":
            if len(self.sims) < 1:
                return
            src = dict(self.sims[o[1] % len(self.sims)])
            dst = dict(self.sims[o[2] % len(self.sims)])
            flags_ = o[4]
            # which entity of the simulator (top-level or a child of another model)
            se_ = src["ents"][flags_.get("se", 0) % len(src["ents"])]
            de_ = dst["ents"][flags_.get("de", 0) % len(dst["ents"])]
            src["ent"], src["masks"] = se_
            dst["ent"], dst["masks"] = de_
            pairs = [tuple(p) for p in o[3]]
            # the API takes a set of pairs: duplicates collapse
            pairs = list(dict.fromkeys(pairs))
            flags = o[4]
            shift = flags.get("shift", 0)
            weak = bool(flags.get("weak"))
            init = {a: f"init:{a}" for a in flags.get("init", [])}
            asyncr = bool(flags.get("async"))
            nt, t, p, np_ = dst["masks"][0], dst["masks"][1], src["masks"][2], src["masks"][3]
            bad = {}
            for sa, da in pairs:
                why = []
                if not mask_has(p | np_, sa if sa in NAMES else "z"):
                    why.append("src")
                if not mask_has(nt | t, da if da in NAMES else "z"):
                    why.append("dst")
                if (shift or weak) and mask_has(nt, da if da in NAMES else "z") and sa not in init:
                    why.append("init")
                if weak and reftime.common(src["path"], dst["path"]) < 2:
                    why.append("weak_root")
                if why:
                    bad[(sa, da)] = why
            if asyncr and (bad or src["sid"] == dst["sid"]):
                asyncr = False
            kw = {}
            if shift:
                kw["time_shifted"] = shift
            if weak:
                kw["weak"] = True
            if init:
                kw["initial_data"] = init
            if asyncr:
                kw["async_requests"] = True
            # the same call without the invalid pairs (for the differential at the end)
            good = [list(p_) for p_ in pairs if p_ not in bad]
            if good or asyncr:
                o2 = [o[0], o[1], o[2], good, dict(o[4], **{"async": asyncr})]
                self.clean_ops.append(o2)
                if not bad:
                    self.clean_ops_atomic.append(o2)     # all-or-nothing reading: a call with a rejected pair is void
            raised = None
            try:
                # a pair of equally named attributes may be given as one string (documented shorthand)
                args = [p_[0] if (flags.get("strform") and p_[0] == p_[1]) else p_ for p_ in pairs]
                self.w.connect(src["ent"], dst["ent"], *args, **kw)
            except ScenarioError as e:
                raised = e
            except Exception as e:  # noqa
                self.fails.append(Failure("C11.crash", f"C11.crash|{type(e).__name__}",
                                          f"connect raised {type(e).__name__}: {e} for {o}"))
                return
            if src["path"] != dst["path"]:
                self.stats["cross_group"] += 1
            if bad and len(bad) < len(pairs):
                self.stats["mixed_calls"] += 1
            shape = "+".join(sorted({w_ for v in bad.values() for w_ in v})) or "valid"
            place = placement(src["path"], dst["path"])
            if bad and raised is None:
                self.fails.append(Failure("C11.accepted_invalid", f"C11.accepted_invalid|{shape}|{place}",
                                          f"connect accepted invalid pair(s) {bad}: {o}; src masks {src['masks']} "
                                          f"dst masks {dst['masks']}"))
            if not bad and raised is not None:
                self.fails.append(Failure("C11.rejected_valid", f"C11.rejected_valid|{place}|weak={weak}|shift={bool(shift)}",
                                          f"connect rejected valid pairs {pairs} {kw}: {str(raised)[:300]}"))
            (self.stats.__setitem__("rejected_calls", self.stats["rejected_calls"] + 1) if raised
             else self.stats.__setitem__("accepted_calls", self.stats["accepted_calls"] + 1))
            for sa, da in pairs:
                if (sa, da) in bad:
                    continue
                kind = "weak" if weak else ("shift" if shift else "plain")
                self.accepted.setdefault((src["sid"], sa, dst["sid"], da), []).append(
                    dict(kind=kind, shift=int(shift), persistent=mask_has(p, sa if sa in NAMES else "z"),
                         trigger=mask_has(t, da if da in NAMES else "z"), call_raised=raised is not None))
                self.edges.append((src["sid"], dst["sid"], kind))
                self.graph_edges.add(frozenset((src["ent"].full_id, dst["ent"].full_id)))
            if asyncr:
                self.edges.append((src["sid"], dst["sid"], "async"))
                self.graph_edges.add(frozenset((src["ent"].full_id, dst["ent"].full_id)))
            for sa, da in pairs:
                self.pairs_touched.add((src["sid"], sa, dst["sid"], da))
                if (sa, da) not in bad:
                    self.slot_feeds.setdefault((src["ent"].full_id, dst["ent"].full_id, da), set()).add(sa)

    def finish(self, until):
        """run the world: cycle verdict, values on slots, entity graph"""
        from mvf import simple_sim
        from mosaik.exceptions import ScenarioError
        while self.stack:
            self.stack.pop().__exit__(None, None, None)
        if not self.sims:
            return
        groups = {s["sid"]: s["path"] for s in self.sims}
        # entity graph: edges only from accepted pairs / async
        want_edges = set(self.graph_edges)
        got_edges = {frozenset(e) for e in self.w.entity_graph.edges}
        if got_edges - want_edges:
            self.fails.append(Failure("C11.entity_graph", "C11.entity_graph",
                                      f"entity_graph has edges {sorted(map(sorted, got_edges - want_edges))} that no accepted pair created"))
        unres, _ = c06.unresolved_cycles(sorted(groups), self.edges, groups)
        from mvf.harness import HarnessAbort
        try:
            simple_sim.guarded_run(self.w, until=until, print_progress=False)
            outcome, msg = "ran", ""
        except HarnessAbort as e:
            outcome, msg = "error", f"run() ended in {e}"      # completion is C05's business
        except ScenarioError as e:
            outcome, msg = "rejected", str(e)
        except AssertionError as e:
            if "incomparable" in str(e):
                return            # F05, judged by C05/C06
            outcome, msg = "error", f"AssertionError: {e}"
        except Exception as e:  # noqa
            outcome, msg = "error", f"{type(e).__name__}: {e}"
        self.final = (outcome, [(r[0], r[2], r[3]) for r in simple_sim.LOG if r[1] == "step"])
        if outcome == "error":
            return                # runtime failures are C05's business (but see the differential in check_case_api)
        if outcome == "rejected" and not unres:
            self.fails.append(Failure("C11.leftover_cycle", "C11.leftover_cycle",
                                      f"run() reports a cycle ({msg[:200]}) although the accepted data-flows {self.edges} have "
                                      f"no unresolved cycle: a rejected pair left a dependency behind"))
            return
        if outcome == "ran" and unres:
            return                # C06's business
        if outcome != "ran":
            return
        seen = set()
        for rec in simple_sim.LOG:
            if rec[1] == "step":
                sid, inputs = rec[0], rec[3]
                for eid, attrs in inputs.items():
                    for attr, srcs in attrs.items():
                        for src_full in srcs:
                            seen.add((src_full.split(".")[0], sid, attr))
        acc_slots = {(k[0], k[2], k[3]) for k in self.accepted}
        for slot in seen - acc_slots:
            self.fails.append(Failure("C11.leftover_dataflow", "C11.leftover_dataflow",
                                      f"input slot {slot} received data although no accepted pair feeds it "
                                      f"(accepted: {sorted(self.accepted)})"))
        stepped = {}
        for rec in simple_sim.LOG:
            if rec[1] == "step":
                stepped.setdefault(rec[0], []).append(rec[2])
        for k, infos in self.accepted.items():
            slot = (k[0], k[2], k[3])
            sh = min(i["shift"] for i in infos)
            # judged only if the source stepped and the destination stepped late enough to see that output
            # (a strictly later integer time: within one time the source may run at a later sub-step)
            due = any(td >= ts + sh + 1 for ts in stepped.get(k[0], []) for td in stepped.get(k[2], []))
            # The statement does not say whether the *valid* pairs of a call that raises are established (mosaik does
            # establish them) or the whole call is void; only pairs of calls that returned normally must deliver.
            if all(i_["call_raised"] for i_ in infos):
                continue
            if slot not in seen and due:
                self.fails.append(Failure("C11.missing_dataflow", "C11.missing_dataflow",
                                          f"accepted pair {k} {infos} never delivered a value to {k[2]}"))


def placement(p, q):
    if p == q:
        return "same_root" if not p else "same_group"
    c = reftime.common(p, q)
    if c == 1:
        return "different_top_groups" if p and q else "root_vs_group"
    if p[:len(q)] == q or q[:len(p)] == p:
        return "nested"
    return "sibling_subgroups"


def check_case_api(case, acc):
    it = Interp()
    try:
        for o in case["ops"]:
            it.op(o)
        it.finish(case.get("until", 3))
    finally:
        it.close()
    # differential: "a rejected attribute pair leaves no data-flow behind": the program must behave exactly like the
    # same program without the invalid pairs (or, second admissible reading, without the failing calls)
    ambiguous = any(len(v) > 1 for v in it.slot_feeds.values())   # which value wins depends on set order
    if it.stats["mixed_calls"] > 0 and it.final is not None and not ambiguous:
        # per simulator (the interleaving of different simulators is not part of the contract)
        def per_sim(steps):
            d = {}
            for sid, t, inp in steps:
                d.setdefault(sid, []).append((t, inp))
            return core.jnorm(d)
        # two admissible readings of a call that raises: its valid pairs are ordinary data-flows (what mosaik does),
        # or the whole call is void.  The run must equal the clean program of one of them.
        verdicts = []
        for ops in (it.clean_ops, it.clean_ops_atomic):
            it2 = Interp()
            try:
                for o in ops:
                    it2.op(o)
                it2.finish(case.get("until", 3))
            finally:
                it2.close()
            if it2.final is None or it2.stats["rejected_calls"] != 0:
                verdicts = None
                break
            a, b = it.final, it2.final
            verdicts.append((a[0] == b[0] and per_sim(a[1]) == per_sim(b[1]), b))
            if verdicts[-1][0]:
                break
        if verdicts and not any(v[0] for v in verdicts):
            a, b = it.final, verdicts[0][1]
            it.fails.append(Failure("C11.partial_connect_differs", f"C11.partial_connect_differs|{a[0]}_vs_{b[0]}",
                                    f"a program with rejected pairs ends with {a[0]} ({len(a[1])} steps); the same "
                                    f"program without the invalid pairs ends with {b[0]} ({len(b[1])} steps), and "
                                    f"it does not equal the program without the failing calls either"))
    nontrivial = it.stats["mixed_calls"] > 0 or it.stats["cross_group"] > 0
    cls = [k for k, v in it.stats.items() if v]
    acc.record(case, nontrivial, cls)
    for f in it.fails:
        f["case"] = case
    return acc.triage(it.fails)


def check_case(case, acc):
    return check_case_dispatch(case, acc)


def table_programs():
    """complete table: placements x flags x attribute validity for single pairs between two simulators"""
    places = [((), ()), ((0,), (0,)), ((0,), ()), ((), (0,)), ((0,), (1,)), ((0, 0), (0, 0)), ((0, 0), (0,)),
              ((0, 0), (0, 1)),
              # many sibling groups: positions 1 and 10..12 (and below them)
              # (groups are created in order, so the first simulator sits in the earlier group; both directions
              # of the connection are tried for these)
              # positions whose decimal numbers are prefixes of each other, counted from 0 or from 1)
              ((0,), (9,)), ((0,), (10,)), ((1,), (10,)), ((1,), (19,)), ((0, 0), (10,)), ((0,), (11, 0)),
              ((0, 0), (0, 9)), ((0, 1), (0, 10)), ((10,), (10,))]
    desc = describe("hybrid", ["a", "b", "c"], ["b"], ["c"], False)   # a: non-trigger in / persistent out; b trigger; c event out
    for pa, pb in places:
        for shift in (0, True, 1, 2):
            for weak in (False, True):
                for sa in ("a", "c", "q"):
                    for da in ("a", "b", "q"):
                        for init in ((), (sa,)):
                            for rev in ((False, True) if max(pa + pb + (0,)) >= 10 else (False,)):
                                conn = ["connect", 1 if rev else 0, 0 if rev else 1, [[sa, da]],
                                        {"shift": shift, "weak": weak, "init": list(init)}]
                                yield {"ops": placement_ops(pa, pb, desc) + [conn], "until": 4}
                                if sa == da:
                                    conn_s = conn[:4] + [dict(conn[4], strform=True)]
                                    yield {"ops": placement_ops(pa, pb, desc) + [conn_s], "until": 4}
                                if pb and max(pa + pb) < 9:
                                    # the same call issued inside the still open group block(s) of the second
                                    # simulator, in both directions (scripts need not connect after the blocks)
                                    yield {"ops": placement_ops(pa, pb, desc, before_close=[conn]), "until": 4}
                                    conn2 = ["connect", 1, 0] + conn[3:]
                                    yield {"ops": placement_ops(pa, pb, desc, before_close=[conn2]), "until": 4}


def mixed_programs():
    """complete table of calls with one valid and one invalid pair (both orders), for the differential against the
    same program without the invalid pair: the destination steps by itself or only when triggered"""
    places = [((), ()), ((0,), (0,)), ((0,), ()), ((0,), (1,)), ((0, 0), (0,))]
    desc = describe("hybrid", ["a", "b", "c"], ["b"], ["c"], False)
    ev_desc = describe("event-based", ["a", "b", "c"], None, None, False)
    for pa, pb in places:
        for no_self in (False, True, "event-based"):
            for good in (["a", "a"], ["a", "b"], ["c", "b"], ["c", "a"]):
                for badp in (["q", "a"], ["a", "q"], ["q", "b"]):
                    for order in (0, 1):
                        for shift in (0, 1):
                            ops = placement_ops(pa, pb, desc)
                            if no_self:
                                last = max(i for i, o_ in enumerate(ops) if o_[0] == "start")
                                if no_self == "event-based":
                                    # an event-based destination: no step of its own at all, only the triggers
                                    ops[last] = ["start", "event-based", ev_desc, {"no_self_step": True}]
                                else:
                                    ops[last] = ops[last] + [{"no_self_step": True}]
                            pairs = [good, badp] if order == 0 else [badp, good]
                            ops.append(["connect", 0, 1, pairs, {"shift": shift, "weak": False,
                                                                 "init": [good[0]] if shift else []}])
                            yield {"ops": ops, "until": 4}


def placement_ops(pa, pb, desc, before_close=None):
    """ops that start S0 at positional path pa and S1 at pb; `before_close`: ops to be issued right after the second
    start(), while the `with world.group()` blocks around it are still open"""
    ops = []
    cur = ()
    counters = {(): 0}

    def goto(target):
        nonlocal cur
        # leave until prefix
        while cur != target[:len(cur)] or len(cur) > len(target):
            ops.append(["leave"])
            cur = cur[:-1]
        while len(cur) < len(target):
            want = target[len(cur)]
            # skip sibling indices by entering and leaving empty groups
            while counters.get(cur, 0) < want:
                ops.append(["enter"])
                ops.append(["leave"])
                counters[cur] = counters.get(cur, 0) + 1
            ops.append(["enter"])
            counters[cur] = counters.get(cur, 0) + 1
            cur = cur + (want,)
            counters.setdefault(cur, 0)
    goto(pa)
    ops.append(["start", "hybrid", desc])
    if pb != pa and pb[:len(pa)] == pa and False:
        pass
    if pa == pb:
        ops.append(["start", "hybrid", desc])
    else:
        # a *different* group with the same positional path cannot be re-entered: paths differ by construction
        goto(pb)
        ops.append(["start", "hybrid", desc])
    if before_close:
        ops.extend(before_close)
    goto(())
    return ops


# ---------------------------------------------------------------- behavioural group scoping
# "Distinct groups, including sibling groups, are distinct: sub-time is shared only inside the common
# enclosing group."  A same-time (weak) loop runs in one group; an observer connected plainly sits in the same
# group, a nested group, a sibling, a cousin or a group of another depth.  The history monitor (reference group
# semantics, DESIGN 2.3) decides which sub-steps the observer may see: inside the common enclosing group it
# follows the sub-steps, outside it is served once, after the loop's time step is over.

def scoping_scenarios():
    from mvf.gen import _sim, _c
    placements = {
        "same_group": [["A", "B", "O"]],
        "nested_observer": [["A", "B", ["O"]]],
        "root_observer": [["A", "B"], "O"],
        "sibling": [["A", "B"], ["O"]],
        "cousin": [[["A", "B"]], [["O"]]],
        "uneven": [["A", "B"], [["O"]]],
        "uneven2": [[["A", "B"]], ["O"]],
        "sibling_subgroups": [[["A", "B"], ["O"]]],
        "loop_nested_observer_outer": [[["A", "B"], "O"]],
    }
    for name, tree in placements.items():
        for obs_type, da in (("hybrid", "ti"), ("hybrid", "mi"), ("event-based", "ti")):
            for budget in (1, 3):
                sims = [_sim("A", "event-based", steps=[1], emit=[1], budget=budget),
                        _sim("B", "event-based", emit=[1], budget=budget),
                        _sim("O", obs_type, steps=[1] if obs_type == "hybrid" else [0], emit=[1])]
                conns = [_c("A", "eo", "B", "ti"), _c("B", "eo", "A", "ti", weak=True), _c("A", "eo", "O", da)]
                yield name, {"tree": tree, "sims": sims, "conns": conns, "initial_events": {"A": 0}, "until": 3,
                             "world": {"cache": True}, "run": {"lazy_stepping": True}}


def check_scoping(case, acc):
    from mvf import harness, monitor, schedprops
    res = harness.run_case(case)
    fails = []
    mon = monitor.Monitor(case["scenario"])
    viol = mon.run(res)
    if res.outcome == "exception":
        fails.append(Failure("C11.group_scoping", f"C11.group_scoping|{schedprops.exc_class(res)}",
                             f"run() raised {res.exc_type}: {res.exc_msg}"))
    elif res.outcome != "returned":
        fails.append(Failure("C11.group_scoping", f"C11.group_scoping|{res.outcome}", f"run() ended in {res.outcome}"))
    for v in viol:
        if v["rule"].split(".")[0] in ("C01", "C02"):
            fails.append(Failure("C11.group_scoping", f"C11.group_scoping|{v['rule']}",
                                 f"[{case.get('placement')}] {v['msg']} (who waits for whose sub-steps is decided by "
                                 f"the group tree {case['scenario']['tree']})"))
            break
    substeps = sum(1 for ls in mon.begun.values() for L in ls if any(L[1:]))
    acc.record(case, substeps > 0, ["scoping." + str(case.get("placement")), "substeps" if substeps else "no_substeps"])
    for f in fails:
        f["case"] = case
    return acc.triage(fails)


def check_case_dispatch(case, acc):
    if case.get("kind") == "scoping":
        return check_scoping(case, acc)
    return check_case_api(case, acc)


def shards(tier, seed):
    n = core.NPROC
    return [dict(prop=PROP, tier=tier, seed=seed, shard=i, nshards=n) for i in range(n)]


def shard(prop, tier, seed, shard, nshards):
    from hypothesis import strategies as st
    acc = core.Acc(PROP, budget_s=200 if tier == "quick" else 1500)
    for i, case in enumerate(itertools.chain(table_programs(), mixed_programs())):
        if i % nshards != shard or acc.out_of_time():
            continue
        for f in check_case(case, acc):
            if len(acc.failures) < 20:
                acc.failures.append(f)

    # behavioural group scoping: placements x observer kinds x loop lengths x schedules
    j = 0
    for name, scn in scoping_scenarios():
        for sched in ({}, {"policy": "lifo"}, {"policy": "starve", "arg": "O"}, {"picks": [1, 2, 0, 2, 1, 1, 0, 2]}):
            j += 1
            if j % nshards != shard or acc.out_of_time():
                continue
            case = {"kind": "scoping", "placement": name, "scenario": scn, "schedule": sched}
            for f in check_case(case, acc):
                if len(acc.failures) < 20:
                    acc.failures.append(f)
            if not sched:
                # the same scenario written with every connect() issued as soon as both simulators exist, i.e.
                # inside still open group blocks
                case = {"kind": "scoping", "placement": name + "|connect_early",
                        "scenario": dict(scn, script={"connect_early": True}), "schedule": sched}
                for f in check_case(case, acc):
                    if len(acc.failures) < 20:
                        acc.failures.append(f)

    attr = st.sampled_from(["a", "b", "c", "q"])
    sub = st.lists(st.sampled_from(["a", "b", "c"]), unique=True, max_size=3).map(sorted)

    @st.composite
    def start_op(draw):
        typ = draw(st.sampled_from(["time-based", "event-based", "hybrid", "hybrid"]))
        attrs = draw(st.one_of(st.just(["a", "b", "c"]), st.just(["a", "b"]), sub))
        trig = draw(st.one_of(st.none(), sub)) if typ == "hybrid" else None
        nonp = draw(st.one_of(st.none(), sub)) if typ == "hybrid" else None
        op_ = ["start", typ, describe(typ, attrs, trig, nonp, draw(st.integers(0, 5)) == 0)]
        opts = {}
        if draw(st.integers(0, 2)) == 0:
            attrs2 = draw(st.one_of(st.just(["a"]), st.just(["b", "c"]), sub))
            opts = {"desc": describe(typ, attrs2, None if typ != "hybrid" else draw(st.one_of(st.none(), sub)),
                                     None, False),
                    "order": draw(st.sampled_from([["N", "M"], ["M", "N"], ["N"], ["N", "N", "M"]]))}
        if typ != "time-based" and draw(st.integers(0, 2)) == 0:
            opts["no_self_step"] = True
        if opts:
            op_.append(opts)
        return op_

    @st.composite
    def connect_op(draw):
        pairs = draw(st.lists(st.tuples(attr, attr).map(list), min_size=1, max_size=3))
        flags = {"shift": draw(st.sampled_from([0, 0, True, 1, 2])), "weak": draw(st.sampled_from([False, False, True])),
                 "init": draw(st.lists(st.sampled_from([p[0] for p in pairs]), unique=True, max_size=3)),
                 "async": draw(st.integers(0, 6)) == 0, "se": draw(st.integers(0, 3)), "de": draw(st.integers(0, 3)),
                 "strform": draw(st.booleans())}
        return ["connect", draw(st.integers(0, 4)), draw(st.integers(0, 4)), pairs, flags]

    op = st.one_of(st.just(["enter"]), st.just(["leave"]), start_op(), start_op(), connect_op(), connect_op(),
                   connect_op(), st.sampled_from([["skip", 1], ["skip", 8], ["skip", 9], ["skip", 10], ["skip", 19]]))
    prog = st.lists(op, min_size=2, max_size=14).map(lambda ops: {"ops": ops, "until": 3})
    core.drive(prog, check_case, acc, 400 if tier == "quick" else 5000, seed * 1000 + shard)
    return acc

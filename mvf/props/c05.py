"""C05 Completion: no deadlock and no internal scheduling error."""
from __future__ import annotations

from mvf import core, gen, harness, schedprops
from mvf.core import Failure

PROP = "C05"
LEVEL = "exploration"
RULE = ("Hypothesis-generated (scenario, schedule) cases: 1-5 scripted compliant simulators in group trees of "
        "depth <= 3, plain/shifted/weak connections, local and in-memory-remote transport, lazy/cache on/off, run "
        "under a controlled event loop where idle loop + nothing pending + no timer = deadlock (exact); plus "
        "FIFO-deviation-bounded exhaustive schedule enumeration on curated micro-topologies. Scenarios rejected by "
        "mosaik's own cycle check are counted, not judged. non-trivial = (>= 3 simulators or a connection cycle) "
        "and >= 2 replies pending at once; distinct = distinct case hashes"
        "; in addition six long runs (until 80 / 120 / 1100, strides of hundreds, 24 simulators) under FIFO, LIFO and a starved simulator, and the "
        "extreme policies (LIFO, steps first, get_data first, each simulator starved) before every schedule enumeration")
RULE += '; generated scenarios include async_requests flags, scenario-script styles, value shapes and child entities of a non-public model'
ASSUMPTIONS = [
    "simulators are scripted and API-compliant (behaviour tables with loop budgets below max_loop_iterations)",
    "interleavings are explored at the granularity of event-loop iterations (mosaik's own concurrency model)",
    "until <= 8, <= 5 simulators, group depth <= 3",
]


def lazy_substep_wait(case, res):
    """At the deadlock, does some simulator's next demanded step have a sub-step > 0 and a direct consumer
    that (by the reference delays) must first reach a sub-step > 0 of the same time and still has an
    earlier step outstanding?  (F04's mechanism)"""
    from mvf import monitor, reftime
    mon = monitor.Monitor(case["scenario"])
    mon.run(res)
    for p, pend in mon.pending.items():
        if not pend:
            continue
        L = min(pend)
        if not any(L[1:]):
            continue
        for c in mon.outof[p]:
            q = c.dst
            if q == p:
                continue
            Tq = reftime.apply(c.adapt, L)
            # q must first reach a sub-step > 0 of this time; whether q's own step or the step of one of q's
            # triggering ancestors outside the loop holds it back does not matter for the mechanism
            if any(Tq[1:]):
                return True
    return False


def analyse(case, res):
    scn = case["scenario"]
    fails = []
    if res.outcome in ("deadlock", "livelock", "runaway"):
        lazy = scn.get("run", {}).get("lazy_stepping", True)
        sig = f"C05.{res.outcome}|lazy={lazy}"
        if res.outcome == "deadlock" and lazy:
            # differential: is the wait cycle created by lazy stepping alone?
            import copy
            c2 = copy.deepcopy(case)
            c2["scenario"]["run"]["lazy_stepping"] = False
            r2 = harness.run_case(c2)
            if r2.outcome == "returned":
                cls = schedprops.scenario_classes(scn)
                sig = (f"C05.deadlock|lazy_only|weak={'weak' in cls}|"
                       f"group_crossing={'group_crossing' in cls}")
                if not lazy_substep_wait(case, res):
                    # F04's mechanism (a lazy wait for a consumer's *sub-step*, by the reference group
                    # semantics) is not present in the deadlocked state: something else
                    sig += "|no_lazy_substep_wait_in_reference"
        fails.append(Failure(f"C05.{res.outcome}", sig,
                             f"run() did not complete: {res.outcome}; steps so far "
                             f"{[(e[1], e[2]) for e in res.trace if e[0] == 'step_begin'][-8:]}"))
    elif res.outcome == "exception":
        ec = schedprops.exc_class(res)
        if ec == "AssertionError:incomparable":
            # is it the comparator that is wrong, or are there really two paths with incomparable delays?
            import re
            from mvf import reftime
            m = re.search(r"(\S+) and (\S+) are incomparable", res.exc_msg or "")
            d1 = reftime.parse_interval(m.group(1)) if m else None
            d2 = reftime.parse_interval(m.group(2)) if m else None
            groups = harness.sim_groups(scn)
            # (if the two delays cannot be read from the message - other wording - any pair of walks with
            # genuinely incomparable delays between one pair of simulators identifies the finding)
            if ((d1 and d2 and reftime.ref_rel(d1, d2) is None
                 and reftime.incomparable_paths(scn, groups, want=(d1, d2)))
                    or (not (d1 and d2) and reftime.incomparable_paths(scn, groups))):
                ec += "|two_paths_genuinely_incomparable"
            else:
                ec += "|not_confirmed_by_reference"
        fails.append(Failure("C05.internal_error", f"C05.internal_error|{ec}",
                             f"run() raised {res.exc_type}: {res.exc_msg}\n{res.exc_tb}"))
    elif res.outcome == "returned":
        if res.shutdown_hang or not res.loop_closed:
            fails.append(Failure("C05.shutdown", "C05.shutdown", "shutdown hung or loop not closed"))
    nontrivial = ((len(scn["sims"]) >= 3 or schedprops.has_cycle(scn)) and res.stats.get("max_pending", 0) >= 2
                  and res.outcome not in ("rejected", "build_error"))
    return fails, nontrivial, []


check_case = schedprops.make_check_case(analyse)


def shards(tier, seed):
    return schedprops.std_shards(PROP, tier, seed)


def shard(prop, tier, seed, shard, nshards):
    acc = core.Acc(PROP, budget_s=120 if tier == "quick" else 1500)
    n = 400 if tier == "quick" else 20000
    core.drive(gen.cases(), check_case, acc, n, seed * 1000 + shard)
    if tier == "thorough":
        # a minority of oversized scenarios (up to 7 simulators, until 12, 12 connections)
        core.drive(gen.cases(min_sims=4, max_sims=7, max_until=12, max_conns=12, debug_ok=False), check_case, acc,
                   n // 8, seed * 1000 + 900 + shard)
    micro = sorted(gen.micro_scenarios().items())
    runs = 0
    complete = True
    for i, (name, scn) in enumerate(micro):
        if i % nshards != shard:
            continue
        for lazy in (True, False):
            s = dict(scn, run={"lazy_stepping": lazy})
            r, c = schedprops.enumerate_schedules(s, check_case, acc, 2 if tier == "quick" else 3,
                                                  max_runs=1500 if tier == "quick" else 30000)
            runs += r
            complete = complete and c
    acc.extra["enumerated_schedule_runs"] = runs
    acc.extra["enumeration_complete"] = complete
    schedprops.run_long(check_case, acc, shard, nshards)
    return acc

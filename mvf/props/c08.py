"""C08 Order-consistent delay arithmetic for grouped (tiered) time.

Reference: a delay (pre_length p, cutoff c, tiers t[0:n]) is the *function on times*
    T (length p)  |->  (T[0:c] + t[0:c]) ++ t[c:n]
and a <= b means "for every departure time T, arrival via a is not later than via b"
(lexicographic order on arrival times).  Written with own tuples; shares nothing with
mosaik.tiered_time.
"""
from __future__ import annotations

import itertools
import os

from mvf import core
from mvf.core import Failure

PROP = "C08"
LEVEL = "exploration"
RULE = ("exhaustive enumeration of all TieredIntervals with pre_length,len<=L, every legal cutoff, "
        "tier values 0..V and all TieredTimes 0..V+1 (pairs, ordered triples, compositions), plus "
        "Hypothesis-generated shapes up to length 6 with large integers; oracle = delays as "
        "functions on times (pointwise order). non-trivial = the pair/triple differs in a tier other "
        "than the first or in cutoff (so grouping matters); distinct = distinct enumerated tuples")
RULE += '; every comparable pair also with operands that were used before (applied to a time, printed)'
ASSUMPTIONS = [
    "delays are compared only between equal (pre_length, len) as mosaik's callers do",
    "pairs that are pointwise incomparable in the reference carry no obligation",
    "tier values are non-negative (connect_interval never produces negative tiers)",
]


def exhaustive(tier):
    return True


# ---------------------------------------------------------------- reference

def ref_apply(iv, T):
    p, c, t = iv
    assert len(T) == p
    return tuple(T[i] + t[i] for i in range(c)) + tuple(t[c:])


def ref_compose(a, b):
    """delay 'a then b' as (p, c, tiers) computed from function composition on probe times."""
    pa, ca, ta = a
    pb, cb, tb = b
    assert len(ta) == pb
    c = min(ca, cb)
    zero = (0,) * pa
    t = ref_apply(b, ref_apply(a, zero))
    return (pa, c, t)


def probe_times(p, a, b):
    """Times that decide the pointwise order of a and b: per tier 0, |diff|, |diff|+1."""
    ta, tb = a[2], b[2]
    axes = []
    for i in range(p):
        d = abs((ta[i] if i < len(ta) else 0) - (tb[i] if i < len(tb) else 0))
        axes.append(sorted({0, d, d + 1}))
    return itertools.product(*axes)


def ref_le(a, b):
    return all(ref_apply(a, T) <= ref_apply(b, T) for T in probe_times(a[0], a, b))


def ref_rel(a, b):
    """'lt', 'gt', 'eq' or None (incomparable)"""
    le, ge = ref_le(a, b), ref_le(b, a)
    if le and ge:
        return "eq"
    if le:
        return "lt"
    if ge:
        return "gt"
    return None


# ---------------------------------------------------------------- implementation access

def mk(iv):
    from mosaik.tiered_time import TieredInterval
    p, c, t = iv
    return TieredInterval(*t, cutoff=c, pre_length=p)


def mk_used(iv):
    """the same delay after it has been used: applied to a time and printed"""
    from mosaik.tiered_time import TieredTime
    x = mk(iv)
    _ = TieredTime(*([1] * iv[0])) + x
    _ = repr(x)
    return x


def unmk(x):
    return (x.pre_length, x.cutoff, tuple(x.tiers))


def impl_lt(a, b):
    """True/False, or the exception type name"""
    try:
        return bool(mk(a) < mk(b))
    except AssertionError as e:
        return "AssertionError:" + str(e)[:60]
    except Exception as e:  # noqa
        return type(e).__name__ + ":" + str(e)[:60]


# ---------------------------------------------------------------- checks (case = dict)

def nontrivial_pair(a, b):
    return a[1] != b[1] or a[2][1:] != b[2][1:]


def check_pair(a, b):
    rel = ref_rel(a, b)
    if rel is None:
        return []
    case = {"kind": "pair", "a": a, "b": b}
    lt, gt = impl_lt(a, b), impl_lt(b, a)
    try:
        eq = bool(mk(a) == mk(b))
    except Exception as e:  # noqa
        eq = "exc"
    out = []
    want = {"lt": (True, False, False), "gt": (False, True, False), "eq": (False, False, True)}[rel]
    got = (lt, gt, eq)
    if got != want:
        if isinstance(lt, str) or isinstance(gt, str):
            rule = "C08.exception_on_comparable"
        elif (lt is True and gt is True):
            rule = "C08.not_antisymmetric"
        elif not (lt or gt or eq):
            rule = "C08.no_relation_holds"
        else:
            rule = "C08.wrong_direction"
        shape = "same_cutoff" if a[1] == b[1] else "mixed_cutoff"
        out.append(Failure(rule, f"{rule}|{shape}",
                           f"a={a} b={b}: reference says a {rel} b (pointwise on all times) but "
                           f"a<b={lt} b<a={gt} a==b={eq}", case))
        return out
    # the relation between two delays must not depend on their *history*: an operand that has been used before
    # (applied to a time, printed) against a freshly built equal-valued one, in every combination
    for ua, ub in ((True, False), (False, True), (True, True)):
        try:
            A = mk_used(a) if ua else mk(a)
            B = mk_used(b) if ub else mk(b)
            got2 = (bool(A < B), bool(B < A), bool(A == B))
            gts = (bool(A > B), bool(B > A))
            if got2 != want or gts != (rel == "gt", rel == "lt"):
                out.append(Failure("C08.history_dependent", "C08.history_dependent",
                                   f"a={a} b={b} (a used before: {ua}, b used before: {ub}): reference a {rel} b, but "
                                   f"a<b, b<a, a==b = {got2}; a>b, b>a = {gts}", case))
                return out
        except Exception as e:  # noqa
            out.append(Failure("C08.exception_on_comparable", "C08.exception_on_comparable|used_operand",
                               f"comparison of used operands ({a},{b}) raised {type(e).__name__}: {e}", case))
            return out
    # the derived operators must agree with <, == (update_min uses <=)
    try:
        A, B = mk(a), mk(b)
        ops = {"<=": bool(A <= B), ">": bool(A > B), ">=": bool(A >= B)}
        want_ops = {"<=": rel in ("lt", "eq"), ">": rel == "gt", ">=": rel in ("gt", "eq")}
        if ops != want_ops:
            bad = sorted(k for k in ops if ops[k] != want_ops[k])
            out.append(Failure("C08.derived_operator", f"C08.derived_operator|{'+'.join(bad)}",
                               f"a={a} b={b}: reference a {rel} b, but {ops}", case))
    except Exception as e:  # noqa
        out.append(Failure("C08.exception_on_comparable", "C08.exception_on_comparable|derived",
                           f"<=,>,>= on ({a},{b}) raised {type(e).__name__}: {e}", case))
    # min / update_min as used by connect_one and the closures
    try:
        from mosaik.scenario import update_min
        A, B = mk(a), mk(b)
        m = min(A, B)
        um = update_min(A, B)
        want_min = a if rel in ("lt", "eq") else b
        if unmk(m) != want_min and rel != "eq":
            out.append(Failure("C08.min", "C08.min", f"min({a},{b})={unmk(m)} expected {want_min}", case))
        if rel in ("lt", "eq") and um is not None:
            out.append(Failure("C08.update_min", "C08.update_min",
                               f"update_min({a},{b}) replaced a smaller/equal delay", case))
        if rel == "gt" and (um is None or unmk(um) != b):
            out.append(Failure("C08.update_min", "C08.update_min",
                               f"update_min({a},{b}) kept the larger delay", case))
    except Exception as e:  # noqa
        out.append(Failure("C08.exception_on_comparable", "C08.exception_on_comparable|min",
                           f"min/update_min({a},{b}) raised {type(e).__name__}: {e}", case))
    return out


def check_triple(a, b, c):
    """transitivity of the implementation's < on reference-comparable triples"""
    if ref_rel(a, b) is None or ref_rel(b, c) is None or ref_rel(a, c) is None:
        return []
    if impl_lt(a, b) is True and impl_lt(b, c) is True and impl_lt(a, c) is not True:
        return [Failure("C08.not_transitive", "C08.not_transitive",
                        f"{a} < {b} < {c} but not {a} < {c}", {"kind": "triple", "a": a, "b": b, "c": c})]
    return []


def check_action(T, a, b):
    """(T+a)+b == T+(a+b) == reference; never backwards; a+b equals reference composition"""
    from mosaik.tiered_time import TieredTime
    case = {"kind": "action", "T": T, "a": a, "b": b}
    out = []
    try:
        A, B = mk(a), mk(b)
        t = TieredTime(*T)
        seq = ((t + A) + B).tiers
        comb = (t + (A + B)).tiers
        ab = unmk(A + B)
        ta = (t + A).tiers
    except Exception as e:  # noqa
        return [Failure("C08.exception_in_add", "C08.exception_in_add",
                        f"T={T} a={a} b={b}: {type(e).__name__}: {e}", case)]
    want = ref_apply(b, ref_apply(a, T))
    if tuple(seq) != want:
        out.append(Failure("C08.apply", "C08.apply", f"(T+a)+b={seq} reference {want} for {case}", case))
    if tuple(comb) != want:
        out.append(Failure("C08.action_law", "C08.action_law",
                           f"T+(a+b)={comb} but (T+a)+b={seq} reference {want}", case))
    if ab != ref_compose(a, b):
        out.append(Failure("C08.compose", "C08.compose",
                           f"a+b={ab} reference {ref_compose(a, b)}", case))
    if tuple(ta[:a[1]]) < tuple(T[:a[1]]):
        out.append(Failure("C08.backwards", "C08.backwards", f"T={T}+{a}={ta} moved backwards", case))
    return out


def check_assoc(a, b, c):
    case = {"kind": "assoc", "a": a, "b": b, "c": c}
    try:
        A, B, C = mk(a), mk(b), mk(c)
        l, r = unmk((A + B) + C), unmk(A + (B + C))
    except Exception as e:  # noqa
        return [Failure("C08.exception_in_add", "C08.exception_in_add",
                        f"{case}: {type(e).__name__}: {e}", case)]
    if l != r:
        return [Failure("C08.not_associative", "C08.not_associative", f"(a+b)+c={l} a+(b+c)={r}", case)]
    return []


def check_compat(a, b, c, side):
    """a<b (impl, reference-comparable) => not (b+c < a+c) [side=r] / not (c+b < c+a) [side=l]"""
    if ref_rel(a, b) is None or impl_lt(a, b) is not True:
        return []
    case = {"kind": "compat", "a": a, "b": b, "c": c, "side": side}
    try:
        A, B, C = mk(a), mk(b), mk(c)
        x, y = (A + C, B + C) if side == "r" else (C + A, C + B)
    except Exception as e:  # noqa
        return [Failure("C08.exception_in_add", "C08.exception_in_add", f"{case}: {e}", case)]
    r = impl_lt(unmk(y), unmk(x))
    if r is not False:
        return [Failure("C08.not_monotone", "C08.not_monotone",
                        f"a<b but comparing (b+c)<(a+c) [{side}] gave {r}: {case}", case)]
    return []


def _tup(iv):
    return (int(iv[0]), int(iv[1]), tuple(int(x) for x in iv[2]))


def check_case(case, acc):
    k = case["kind"]
    if k == "pair":
        f = check_pair(_tup(case["a"]), _tup(case["b"]))
    elif k == "triple":
        f = check_triple(_tup(case["a"]), _tup(case["b"]), _tup(case["c"]))
    elif k == "action":
        f = check_action(tuple(case["T"]), _tup(case["a"]), _tup(case["b"]))
    elif k == "assoc":
        f = check_assoc(_tup(case["a"]), _tup(case["b"]), _tup(case["c"]))
    elif k == "compat":
        f = check_compat(_tup(case["a"]), _tup(case["b"]), _tup(case["c"]), case["side"])
    else:
        raise core.HarnessError("unknown case kind " + k)
    return acc.triage(f)


# ---------------------------------------------------------------- enumeration

def intervals(L, V, p=None, n=None):
    for pp in ([p] if p else range(1, L + 1)):
        for nn in ([n] if n else range(1, L + 1)):
            for c in range(1, min(pp, nn) + 1):
                for t in itertools.product(range(V + 1), repeat=nn):
                    yield (pp, c, t)


def bounds(tier):
    # (L, V) for pairs; (L, V) for triples; (L, V) for composition
    if tier == "thorough":
        return dict(pair=(4, 3), triple=(3, 3), comp=(3, 2), assoc=(3, 2), hyp=50000)
    return dict(pair=(3, 2), triple=(3, 2), comp=(3, 1), assoc=(3, 1), hyp=1500)


def shards(tier, seed):
    n = core.NPROC
    return [dict(prop=PROP, tier=tier, seed=seed, shard=i, nshards=n) for i in range(n)]


def shard(prop, tier, seed, shard, nshards):
    acc = core.Acc(PROP)
    b = bounds(tier)
    cnt = 0          # global enumeration index for round-robin sharding
    nontriv = 0
    evals = 0
    classes = acc.classes

    def mine():
        nonlocal cnt
        cnt += 1
        return cnt % nshards == shard

    def fail(fs):
        new = acc.triage(fs)
        for f in new:
            if len(acc.failures) < 50:
                acc.failures.append(f)

    # pairs
    L, V = b["pair"]
    for p in range(1, L + 1):
        for n in range(1, L + 1):
            ivs = list(intervals(L, V, p, n))
            for a in ivs:
                if not mine():
                    continue
                for bb in ivs:
                    evals += 1
                    rel = ref_rel(a, bb)
                    if rel is None:
                        classes["pair.ref_incomparable"] += 1
                        continue
                    classes["pair.comparable"] += 1
                    if nontrivial_pair(a, bb):
                        nontriv += 1
                        if a[1] != bb[1]:
                            classes["pair.mixed_cutoff"] += 1
                        if len(acc.samples) < 2 and a[1] != bb[1] and rel != "eq":
                            acc.samples.append({"kind": "pair", "a": a, "b": bb, "reference": rel})
                    fail(check_pair(a, bb))
    # triples (transitivity)
    L, V = b["triple"]
    for p in range(1, L + 1):
        for n in range(1, L + 1):
            ivs = list(intervals(L, V, p, n))
            rel = {}
            for a in ivs:
                if not mine():
                    continue
                lt_a = [x for x in ivs if impl_lt(a, x) is True and ref_rel(a, x) is not None]
                for x in lt_a:
                    for y in ivs:
                        key = (x, y)
                        if key not in rel:
                            rel[key] = (impl_lt(x, y) is True and ref_rel(x, y) is not None)
                        if rel[key]:
                            evals += 1
                            if a[1] != x[1] or x[1] != y[1]:
                                nontriv += 1
                            classes["triple.chain"] += 1
                            fail(check_triple(a, x, y))
    # action law / composition / never backwards
    L, V = b["comp"]
    for a in intervals(L, V):
        if not mine():
            continue
        for bb in intervals(L, V, p=len(a[2])):
            for T in itertools.product(range(V + 2), repeat=a[0]):
                evals += 1
                if a[1] != bb[1] or len(a[2]) != a[0] or len(bb[2]) != bb[0]:
                    nontriv += 1
                classes["action"] += 1
                if len(acc.samples) < 4 and a[1] < bb[1] and len(bb[2]) > 2 and any(T):
                    acc.samples.append({"kind": "action", "T": T, "a": a, "b": bb})
                fail(check_action(T, a, bb))
            # compatibility with the order
            for c in intervals(L, V, p=len(a[2]), n=len(a[2])):
                pass
    # associativity and monotonicity
    L, V = b["assoc"]
    for a in intervals(L, V):
        if not mine():
            continue
        for bb in intervals(L, V, p=len(a[2])):
            for c in intervals(L, V, p=len(bb[2])):
                evals += 1
                if len({a[1], bb[1], c[1]}) > 1:
                    nontriv += 1
                classes["assoc"] += 1
                fail(check_assoc(a, bb, c))
        # monotone: a<b same shape, c composable on the right / left
        for bb in intervals(L, V + 1, p=a[0], n=len(a[2])):
            if ref_rel(a, bb) is None or impl_lt(a, bb) is not True:
                continue
            for c in intervals(L, V, p=len(a[2])):
                evals += 1
                nontriv += 1 if (a[1] != bb[1] or c[1] != a[1]) else 0
                classes["compat.right"] += 1
                fail(check_compat(a, bb, c, "r"))
            for c in intervals(L, V, n=a[0]):
                evals += 1
                nontriv += 1 if (a[1] != bb[1] or c[1] != a[1]) else 0
                classes["compat.left"] += 1
                fail(check_compat(a, bb, c, "l"))
    acc.evaluations += evals
    acc.extra["nontrivial_enumerated"] = nontriv

    # Hypothesis: longer shapes, large integers
    from hypothesis import strategies as st

    @st.composite
    def iv(draw, p=None, n=None):
        pp = p or draw(st.integers(1, 6))
        nn = n or draw(st.integers(1, 6))
        c = draw(st.integers(1, min(pp, nn)))
        big = st.one_of(st.integers(0, 3), st.integers(0, 10 ** 6))
        t = draw(st.lists(big, min_size=nn, max_size=nn))
        return [pp, c, t]

    @st.composite
    def hcase(draw):
        kind = draw(st.sampled_from(["pair", "pair", "triple", "action", "assoc", "compat"]))
        a = draw(iv())
        if kind == "pair":
            # related pair: perturb a so that comparable pairs are frequent
            b = draw(st.one_of(iv(p=a[0], n=len(a[2])), st.just(None)))
            if b is None:
                t = list(a[2])
                i = draw(st.integers(0, len(t) - 1))
                t[i] += draw(st.integers(0, 2))
                b = [a[0], draw(st.integers(1, min(a[0], len(t)))), t]
            return {"kind": "pair", "a": a, "b": b}
        if kind == "triple":
            return {"kind": "triple", "a": a, "b": draw(iv(p=a[0], n=len(a[2]))),
                    "c": draw(iv(p=a[0], n=len(a[2])))}
        if kind == "action":
            T = draw(st.lists(st.integers(0, 10 ** 6), min_size=a[0], max_size=a[0]))
            return {"kind": "action", "T": T, "a": a, "b": draw(iv(p=len(a[2])))}
        if kind == "assoc":
            b = draw(iv(p=len(a[2])))
            return {"kind": "assoc", "a": a, "b": b, "c": draw(iv(p=len(b[2])))}
        b = draw(iv(p=a[0], n=len(a[2])))
        side = draw(st.sampled_from(["l", "r"]))
        c = draw(iv(p=len(a[2]))) if side == "r" else draw(iv(n=a[0]))
        return {"kind": "compat", "a": a, "b": b, "c": c, "side": side}

    def hcheck(case, acc_):
        nt = case["kind"] != "pair" or nontrivial_pair(_tup(case["a"]), _tup(case["b"]))
        acc_.record(case, nt, ["hyp." + case["kind"]])
        return check_case(case, acc_)

    core.drive(hcase(), hcheck, acc, b["hyp"] // nshards + 1, seed * 1000 + shard)
    return acc

"""C06 Cycle detection is exact."""
from __future__ import annotations

import itertools
import re

import networkx as nx

from mvf import core, reftime
from mvf.core import Failure

PROP = "C06"
LEVEL = "exploration"
RULE = ("connection multigraphs over 1-5 simulators placed in arbitrary group trees (depth <= 3, siblings), any mix "
        "of plain / time-shifted / weak (valid) / async edges, self-connections and parallel edges of different "
        "kinds: exhaustive for 2 simulators (quick), for 4 simulators in two sibling groups with plain/weak edges "
        "(quick; nested and uneven placements in thorough) and for 3 simulators with <= 4 edges (thorough), Hypothesis "
        "beyond; independent graph oracle (networkx simple cycles; a cycle is unresolved iff every hop has a "
        "connection that is neither shifted nor weak-with-the-whole-cycle-inside-the-closest-common-group); "
        "run(until=0) must raise ScenarioError iff an unresolved cycle exists, name a real unresolved cycle, and "
        "no simulator may be stepped; non-trivial = the graph contains a directed cycle; distinct = distinct graphs")
ASSUMPTIONS = [
    "'stays inside the shared group' = every simulator of the cycle is in the closest common group of the weak "
    "connection's two ends or in a descendant group (the documentation's 'closest shared group')",
    "all simulators are hybrid so that every attribute combination can be connected",
]
KINDS = ("plain", "shift", "weak", "async")
PLACEMENTS2 = [((), ()), ((0,), (0,)), ((0,), ()), ((), (0,)), ((0,), (1,)), ((0, 0), (0,)), ((0, 0), (0, 0)),
               ((0, 0), (0, 1)), ((0,), (0, 0))]


def exhaustive(tier):
    return True


# ---------------------------------------------------------------- oracle

def inside(path, group):
    return tuple(path[:len(group)]) == tuple(group)


def resolves(edge, cycle_nodes, groups):
    """edge = (src, dst, kind)"""
    src, dst, kind = edge
    if kind == "shift":
        return True
    if kind == "weak":
        c = reftime.common(groups[src], groups[dst])     # depth of the closest common group
        g = tuple(groups[src][:c - 1])
        if c < 2:
            return False
        return all(inside(groups[n], g) for n in cycle_nodes)
    return False


def unresolved_cycles(sims, edges, groups):
    g = nx.DiGraph()
    g.add_nodes_from(sims)
    for s, d, k in edges:
        g.add_edge(s, d)
    out = []
    for cyc in nx.simple_cycles(g):
        nodes = set(cyc)
        ok = True
        for i, u in enumerate(cyc):
            v = cyc[(i + 1) % len(cyc)]
            hop = [e for e in edges if e[0] == u and e[1] == v]
            if all(resolves(e, nodes, groups) for e in hop):
                ok = False
                break
        if ok:
            out.append(cyc)
    return out, g


def walk_unresolved(path, edges, groups):
    """is the closed walk named by mosaik a real unresolved cycle?"""
    if len(path) < 2 or path[0] != path[-1]:
        return False, "not closed"
    nodes = set(path)
    for u, v in zip(path, path[1:]):
        hop = [e for e in edges if e[0] == u and e[1] == v]
        if not hop:
            return False, f"no connection {u}->{v}"
        if all(resolves(e, nodes, groups) for e in hop):
            return False, f"hop {u}->{v} is resolved"
    return True, ""


# ---------------------------------------------------------------- running a graph against mosaik

META = {"api_version": "3.0", "type": "hybrid", "models": {"M": {
    "public": True, "params": [], "attrs": ["mi", "ti", "po", "eo"], "trigger": ["ti"], "non-persistent": ["eo"]}}}


def tree_from_paths(paths):
    from mvf.gen import build_tree
    return build_tree(paths, {})


# simulator ids carry a prefix that cannot be mistaken for a word of the message, so the named cycle is found in
# the error text whatever its wording (e.g. "[<SimRunner sid='Sim_A'>, ...]" or "Sim_A -> Sim_B -> Sim_A")
SID_PREFIX = "Sim_"


def named_path(msg):
    path = re.findall(re.escape(SID_PREFIX) + r"([A-Za-z0-9]+)", msg)
    if len(path) >= 1 and path[0] != path[-1]:
        path = path + [path[0]]          # a cycle listed by its members without repeating the first one
    return path


def run_graph(case, until=0):
    """case: {'paths': {sid: path}, 'edges': [[src, dst, kind, dattr]]} -> (outcome, message, stepped)"""
    from mvf import simple_sim
    from mvf.harness import sim_groups
    from mosaik.exceptions import ScenarioError
    import warnings
    warnings.simplefilter("ignore")
    simple_sim.LOG.clear()
    paths = {s: tuple(p) for s, p in case["paths"].items()}
    tree = tree_from_paths(paths)
    w = simple_sim.quiet_world()
    ents = {}
    try:
        def build(t):
            for ch in t:
                if isinstance(ch, str):
                    ents[ch] = w.start("Meta", sim_id=SID_PREFIX + ch, meta=META).M.create(1)[0]
                else:
                    with w.group():
                        build(ch)
        build(tree)
        for src, dst, kind, da in case["edges"]:
            sa = "eo" if (kind == "weak" and da == "ti") else "po"
            try:
                if kind == "async":
                    w.connect(ents[src], ents[dst], async_requests=True)
                else:
                    kw = {}
                    if kind == "shift":
                        kw["time_shifted"] = True
                    if kind == "weak":
                        kw["weak"] = True
                    if kind in ("shift", "weak") and da == "mi":
                        kw["initial_data"] = {sa: 0}
                    w.connect(ents[src], ents[dst], (sa, da), **kw)
            except ScenarioError as e:
                return "build_error", str(e), False
        from mvf.harness import HarnessAbort
        try:
            simple_sim.guarded_run(w, until=until, print_progress=False)
            outcome, msg = "accepted", ""
        except HarnessAbort as e:
            outcome, msg = "accepted", f"(the accepted scenario then ended in {e})"
        except ScenarioError as e:
            outcome, msg = "rejected", str(e)
        except BaseException as e:  # noqa
            outcome, msg = "error", f"{type(e).__name__}: {e}"
            import traceback
            from mvf.schedprops import raised_in_delay_comparison
            if "incomparable" not in msg and raised_in_delay_comparison("".join(traceback.format_exception(e))):
                msg += " [the comparison of two delays failed: incomparable]"
        stepped = any(x[1] == "step" for x in simple_sim.LOG)
        return outcome, msg, stepped
    finally:
        simple_sim.close_world(w)


def groups_of(case):
    from mvf.harness import sim_groups
    paths = {s: tuple(p) for s, p in case["paths"].items()}
    return sim_groups({"tree": tree_from_paths(paths)})


def incomparable_sig(msg, sims, edges, groups):
    m = re.search(r"(\S+) and (\S+) are incomparable", msg)
    d1 = reftime.parse_interval(m.group(1)) if m else None
    d2 = reftime.parse_interval(m.group(2)) if m else None
    scn = {"sims": [{"sid": s} for s in sims],
           "conns": [{"src": e[0], "dst": e[1], "shift": 1 if e[2] == "shift" else 0, "weak": e[2] == "weak"}
                     for e in edges]}
    if ((d1 and d2 and reftime.ref_rel(d1, d2) is None and reftime.incomparable_paths(scn, groups, (d1, d2)))
            or (not (d1 and d2) and reftime.incomparable_paths(scn, groups))):
        return "C06.error|AssertionError:incomparable|two_paths_genuinely_incomparable"
    return "C06.error|AssertionError:incomparable|not_confirmed_by_reference"


def check_graph(case):
    groups = groups_of(case)
    sims = sorted(case["paths"])
    edges = [(e[0], e[1], e[2]) for e in case["edges"]]
    unres, g = unresolved_cycles(sims, edges, groups)
    outcome, msg, stepped = run_graph(case, 0)
    fails = []
    if outcome == "build_error":
        return [], "build_error", g
    if stepped:
        fails.append(Failure("C06.stepped", "C06.stepped", f"a simulator was stepped by run(0); {case}"))
    if outcome == "error":
        sig = "C06.error"
        if "incomparable" in msg:
            sig = incomparable_sig(msg, sims, edges, groups)
        fails.append(Failure("C06.error", sig, f"run(0) raised {msg}; expected "
                                               f"{'ScenarioError' if unres else 'acceptance'}; {case}"))
    elif unres and outcome == "accepted":
        fails.append(Failure("C06.accepted_unresolved_cycle", "C06.accepted_unresolved_cycle",
                             f"unresolved cycle(s) {unres[:3]} but run() accepted the scenario; {case}"))
    elif not unres and outcome == "rejected":
        fails.append(Failure("C06.rejected_resolved", "C06.rejected_resolved",
                             f"every cycle is resolved (or there is none) but run() raised: {msg[:200]}; {case}"))
    elif unres and outcome == "rejected":
        path = named_path(msg)
        ok, why = walk_unresolved(path, edges, groups)
        if not ok:
            fails.append(Failure("C06.named_cycle", "C06.named_cycle",
                                 f"the cycle named in the error {path} is not a real unresolved cycle ({why}); {case}"))
        # differential: a rejected scenario is not stepped for until > 0 either
        o2, m2, st2 = run_graph(case, 3)
        if o2 == "error" and "incomparable" in m2 and not st2:
            # the closure visits simulators in set order: the same scenario may hit F05's assertion first
            fails.append(Failure("C06.error", incomparable_sig(m2, sims, edges, groups),
                                 f"run(3) raised {m2} (run(0) rejected the scenario); {case}"))
        elif st2 or o2 != "rejected":
            fails.append(Failure("C06.stepped", "C06.stepped|until>0",
                                 f"rejected by run(0) but run(3) gave {o2}, stepped={st2}; {case}"))
    return fails, outcome, g


def check_case(case, acc):
    fails, outcome, g = check_graph(case)
    has_cycle = False
    try:
        nx.find_cycle(g)
        has_cycle = True
    except nx.NetworkXNoCycle:
        pass
    cls = ["outcome." + outcome]
    kinds = {e[2] for e in case["edges"]}
    cls += ["has." + k for k in sorted(kinds)]
    if len({tuple(p) for p in case["paths"].values()}) > 1:
        cls.append("several_groups")
    acc.record(case, has_cycle and outcome != "build_error", cls)
    for f in fails:
        f["case"] = case
    return acc.triage(fails)


# ---------------------------------------------------------------- enumeration / generation

def edge_options(src, dst, paths):
    """all single edges possible between an ordered pair"""
    opts = [(src, dst, "plain", "mi"), (src, dst, "plain", "ti"), (src, dst, "shift", "ti"), (src, dst, "shift", "mi")]
    if reftime.common(paths[src], paths[dst]) >= 2:
        opts += [(src, dst, "weak", "ti"), (src, dst, "weak", "mi")]
    if src != dst:
        opts.append((src, dst, "async", "-"))
    return opts


def enum2():
    """all graphs over 2 simulators: per ordered pair (incl. self) one of: none / plain / shift / weak /
    plain+shift / weak+shift / plain+weak / async (destination attribute ti), all placements"""
    sims = ["A", "B"]
    pairs = [(a, b) for a in sims for b in sims]
    for pa, pb in PLACEMENTS2:
        paths = {"A": pa, "B": pb}
        per_pair = []
        for (s, d) in pairs:
            weak_ok = reftime.common(paths[s], paths[d]) >= 2
            opts = [[], ["plain"], ["shift"], ["plain", "shift"]]
            if weak_ok:
                opts += [["weak"], ["weak", "shift"], ["plain", "weak"]]
            if s != d:
                opts.append(["async"])
            per_pair.append([(s, d, o) for o in opts])
        for combo in itertools.product(*per_pair):
            edges = []
            for s, d, kinds in combo:
                for k in kinds:
                    edges.append([s, d, k, "ti" if k != "async" else "-"])
            yield {"paths": {k: list(v) for k, v in paths.items()}, "edges": edges}


PLACEMENTS3 = [((), (), ()), ((0,), (0,), (0,)), ((0,), (0,), ()), ((0,), (), ()), ((0,), (0,), (1,)),
               ((0, 0), (0, 0), (0,)), ((0, 0), (0,), ()), ((0, 0), (0, 1), (0,)), ((0,), (1,), ())]


def enum3(max_edges=4):
    sims = ["A", "B", "C"]
    for pl in PLACEMENTS3:
        paths = dict(zip(sims, pl))
        singles = []
        for s in sims:
            for d in sims:
                for e in edge_options(s, d, paths):
                    if e[3] in ("ti", "-"):
                        singles.append(list(e))
        for n in range(1, max_edges + 1):
            for combo in itertools.combinations(singles, n):
                yield {"paths": {k: list(v) for k, v in paths.items()}, "edges": [list(e) for e in combo]}


PLACEMENTS4 = [((0,), (0,), (1,), (1,))]
PLACEMENTS4_THOROUGH = [((0, 0), (0, 0), (0, 1), (0, 1)), ((0,), (0,), (0, 0), (0, 0)), ((0,), (0,), (0,), ())]


def enum4(placements):
    """all graphs over 4 simulators in two groups with plain and weak connections only (no self-connections): per
    ordered pair none / plain / weak (weak where the two share a group)"""
    sims = ["A", "B", "C", "D"]
    pairs = [(a, b) for a in sims for b in sims if a != b]
    for pl in placements:
        paths = dict(zip(sims, pl))
        per_pair = []
        for s, d in pairs:
            opts = [None, "plain"]
            if reftime.common(paths[s], paths[d]) >= 2:
                opts.append("weak")
            per_pair.append([(s, d, o) for o in opts])
        for combo in itertools.product(*per_pair):
            edges = [[s, d, k, "ti"] for s, d, k in combo if k]
            yield {"paths": {k: list(v) for k, v in paths.items()}, "edges": edges}


def shards(tier, seed):
    n = core.NPROC
    return [dict(prop=PROP, tier=tier, seed=seed, shard=i, nshards=n) for i in range(n)]


def shard(prop, tier, seed, shard, nshards):
    acc = core.Acc(PROP, budget_s=200 if tier == "quick" else 2400)
    i = 0
    complete = True
    for case in enum2():
        i += 1
        if i % nshards != shard:
            continue
        if acc.out_of_time():
            complete = False
            break
        for f in check_case(case, acc):
            if len(acc.failures) < 20:
                acc.failures.append(f)
    for case in enum4(PLACEMENTS4 if tier == "quick" else PLACEMENTS4 + PLACEMENTS4_THOROUGH):
        i += 1
        if i % nshards != shard:
            continue
        if acc.out_of_time():
            complete = False
            break
        for f in check_case(case, acc):
            if len(acc.failures) < 20:
                acc.failures.append(f)
    if tier == "thorough":
        for case in enum3(4):
            i += 1
            if i % nshards != shard:
                continue
            if acc.out_of_time():
                complete = False
                break
            for f in check_case(case, acc):
                if len(acc.failures) < 20:
                    acc.failures.append(f)
    acc.extra["enumeration_complete"] = complete

    from hypothesis import strategies as st
    from mvf.gen import PATHS

    @st.composite
    def graphs(draw):
        n = draw(st.integers(1, 5))
        sims = [f"S{i}" for i in range(n)]
        paths = {s: draw(st.sampled_from(PATHS)) for s in sims}
        edges = []
        seen = set()
        for _ in range(draw(st.integers(0, 9))):
            s = draw(st.sampled_from(sims))
            d = draw(st.sampled_from(sims))
            opts = edge_options(s, d, paths)
            e = draw(st.sampled_from(opts))
            key = (e[0], e[1], e[2], e[3])
            if key in seen:
                continue
            seen.add(key)
            edges.append(list(e))
        return {"paths": {k: list(v) for k, v in paths.items()}, "edges": edges}

    core.drive(graphs(), check_case, acc, (8000 if tier == "quick" else 320000) // nshards + 1, seed * 1000 + shard)
    return acc

"""C12 Attribute classification from model descriptions.

Reference: sets are 4-bit masks over (a, b, c, z) where z stands for "any other name"
(co-finite sets have the z bit).  The classification is found by brute force: all pairs
(NT, T) / (P, NP) of masks that satisfy partition + explicit lists + type defaults; the
description is acceptable iff exactly one solution exists.
"""
from __future__ import annotations

import itertools

from mvf import core
from mvf.core import Failure

PROP = "C12"
LEVEL = "exploration"
RULE = ("complete enumeration of model descriptions: attrs/trigger/non-trigger/persistent/non-persistent each "
        "absent or any subset of {a,b,c} (9^5), any_inputs in {absent,False,True}, 3 types, against parse_attrs; "
        "complete operator table of finite/co-finite sets over {a,b,c}+fresh for -,&,| (both operand orders), in, "
        "==; Hypothesis-generated set expression trees; sampled descriptions end-to-end through World.start and "
        "connect, simulators with several models, and one simulator class with a shared module-level description "
        "started several times with different types in one process. Oracle: brute-force constraint solver on bitmasks. non-trivial = >= 2 of the five lists given "
        "(descriptions) / an OutSet operand (algebra); distinct = distinct enumerated tuples")
ASSUMPTIONS = [
    "universe of three attribute names plus one fresh name standing for any other (the code is name-agnostic)",
    "type defaults as documented: time-based = non-trigger/persistent, event-based = trigger/non-persistent, "
    "hybrid = non-trigger/persistent unless listed",
]
NAMES = ("a", "b", "c", "z")
SUBSETS = [None] + [tuple(n for i, n in enumerate("abc") if m >> i & 1) for m in range(8)]
TYPES = ("time-based", "event-based", "hybrid")


def exhaustive(tier):
    return True


def mask(names):
    return sum(1 << NAMES.index(n) for n in names)


ALL = 0b1111


def solve_inputs(attrs, trig, nontrig, any_inputs, typ):
    """returns (NT, T) masks or None if rejected"""
    I = ALL if any_inputs else (mask(attrs) if attrs is not None else None)
    sols = []
    for NT in range(16):
        for T in range(16):
            if NT & T:
                continue
            if I is not None and (NT | T) != I:
                continue
            if nontrig is not None and NT != mask(nontrig):
                continue
            if trig is not None and T != mask(trig):
                continue
            if typ == "time-based" and T != 0:
                continue
            if typ == "event-based" and NT != 0:
                continue
            if typ == "hybrid" and trig is None and nontrig is None and T != 0:
                continue     # default: everything is non-trigger
            sols.append((NT, T))
    return sols[0] if len(sols) == 1 else None


def solve_outputs(attrs, pers, nonpers, typ):
    O = mask(attrs) if attrs is not None else None
    sols = []
    for P in range(16):
        for NP in range(16):
            if P & NP:
                continue
            if O is not None and (P | NP) != O:
                continue
            if pers is not None and P != mask(pers):
                continue
            if nonpers is not None and NP != mask(nonpers):
                continue
            if typ == "time-based" and NP != 0:
                continue
            if typ == "event-based" and P != 0:
                continue
            if typ == "hybrid" and nonpers is None and NP != 0:
                continue     # default: persistent unless listed
            if typ == "event-based" and False:
                continue
            sols.append((P, NP))
    return sols[0] if len(sols) == 1 else None


def members(s):
    return sum(1 << i for i, n in enumerate(NAMES) if n in s)


def make_desc(attrs, trig, nontrig, pers, nonpers, any_inputs):
    d = {"public": True, "params": []}
    for k, v in (("attrs", attrs), ("trigger", trig), ("non-trigger", nontrig),
                 ("persistent", pers), ("non-persistent", nonpers)):
        if v is not None:
            d[k] = list(v)
    if any_inputs is not None:
        d["any_inputs"] = any_inputs
    return d


_in_cache = {}
_out_cache = {}


def expected(attrs, trig, nontrig, pers, nonpers, any_inputs, typ):
    k1 = (attrs, trig, nontrig, bool(any_inputs), typ)
    if k1 not in _in_cache:
        _in_cache[k1] = solve_inputs(attrs, trig, nontrig, bool(any_inputs), typ)
    k2 = (attrs, pers, nonpers, typ)
    if k2 not in _out_cache:
        _out_cache[k2] = solve_outputs(attrs, pers, nonpers, typ)
    i, o = _in_cache[k1], _out_cache[k2]
    if i is None or o is None:
        return None
    return i + o


def check_desc(attrs, trig, nontrig, pers, nonpers, any_inputs, typ):
    from mosaik.scenario import parse_attrs
    want = expected(attrs, trig, nontrig, pers, nonpers, any_inputs, typ)
    desc = make_desc(attrs, trig, nontrig, pers, nonpers, any_inputs)
    case = {"kind": "desc", "type": typ, "desc": desc}
    try:
        got = parse_attrs(desc, typ)
    except ValueError:
        got = None
    except Exception as e:  # noqa
        return [Failure("C12.crash", "C12.crash", f"{type(e).__name__}: {e} for {case}", case)]
    if want is None and got is None:
        return []
    if want is None:
        gm = tuple(members(s) for s in got)
        return [Failure("C12.accepted_inconsistent", "C12.accepted_inconsistent",
                        f"no unique consistent classification exists, but parse_attrs returned "
                        f"{gm} for {case}", case)]
    if got is None:
        return [Failure("C12.rejected_consistent", "C12.rejected_consistent",
                        f"unique consistent classification {want} exists but parse_attrs raised ValueError for {case}",
                        case)]
    gm = tuple(members(s) for s in got)
    if gm != want:
        return [Failure("C12.wrong_classification", "C12.wrong_classification",
                        f"(non-trigger, trigger, persistent, non-persistent) = {gm}, expected {want} "
                        f"(bit i = member NAMES[i] of a,b,c,other) for {case}", case)]
    # validity predicates on the accepted result (partition, via the InOrOutSet operators themselves)
    nt, t, p, np_ = got
    for x in NAMES:
        if (x in nt) and (x in t) or (x in p) and (x in np_):
            return [Failure("C12.not_partition", "C12.not_partition", f"{x} in both classes for {case}", case)]
    return []


# ---------------------------------------------------------------- set algebra

def mkset(m):
    """mask -> frozenset or OutSet with that membership on NAMES"""
    from mosaik.in_or_out_set import OutSet
    fin = frozenset(n for i, n in enumerate("abc") if m >> i & 1)
    if m & 0b1000:
        return OutSet(frozenset("abc") - fin)
    return fin


OPS = {"-": lambda x, y: x & ~y & ALL, "&": lambda x, y: x & y, "|": lambda x, y: x | y}


def apply_op(op, A, B):
    if op == "-":
        return A - B
    if op == "&":
        return A & B
    return A | B


def check_algebra(op, ma, mb):
    from mosaik.in_or_out_set import OutSet
    case = {"kind": "algebra", "op": op, "a": ma, "b": mb}
    A, B = mkset(ma), mkset(mb)
    try:
        if op == "==":
            r = (A == B)
            if bool(r) != (ma == mb):
                return [Failure("C12.algebra", "C12.algebra|==", f"{A} == {B} gave {r}; {case}", case)]
            return []
        if op == "in":
            for i, x in enumerate(NAMES):
                if (x in A) != bool(ma >> i & 1):
                    return [Failure("C12.algebra", "C12.algebra|in", f"{x} in {A}; {case}", case)]
            return []
        R = apply_op(op, A, B)
    except Exception as e:  # noqa
        return [Failure("C12.algebra_crash", "C12.algebra_crash|" + op,
                        f"{type(e).__name__}: {e} for {A} {op} {B}; {case}", case)]
    if not isinstance(R, (frozenset, OutSet)):
        return [Failure("C12.algebra", "C12.algebra|type", f"{A} {op} {B} -> {type(R)}; {case}", case)]
    want = OPS[op](ma, mb)
    if members(R) != want:
        return [Failure("C12.algebra", "C12.algebra|" + op,
                        f"{A} {op} {B} = {R} membership {members(R):04b} expected {want:04b}; {case}", case)]
    return []


def eval_expr(e):
    """expression tree: int leaf (mask) or [op, l, r]; returns (impl value, model mask)"""
    if isinstance(e, int):
        return mkset(e), e
    op, l, r = e
    lv, lm = eval_expr(l)
    rv, rm = eval_expr(r)
    return apply_op(op, lv, rv), OPS[op](lm, rm)


def check_expr(e):
    case = {"kind": "expr", "expr": e}
    try:
        v, m = eval_expr(e)
        got = members(v)
    except Exception as ex:  # noqa
        return [Failure("C12.algebra_crash", "C12.algebra_crash|expr", f"{type(ex).__name__}: {ex}; {case}", case)]
    if got != m:
        return [Failure("C12.algebra", "C12.algebra|expr", f"expression {e} -> {v} expected mask {m:04b}", case)]
    return []


# ---------------------------------------------------------------- end to end

def check_e2e(typ, desc):
    """World.start must reject iff parse_attrs rejects; ModelMock sets = classification; connect accepts
    exactly (output attr -> input attr) pairs."""
    from mosaik.exceptions import ScenarioError
    from mvf.simple_sim import quiet_world, close_world
    g = lambda k: tuple(desc[k]) if k in desc else None  # noqa
    want = expected(g("attrs"), g("trigger"), g("non-trigger"), g("persistent"), g("non-persistent"),
                    desc.get("any_inputs"), typ)
    case = {"kind": "e2e", "type": typ, "desc": desc}
    meta = {"api_version": "3.0", "type": typ, "models": {"M": desc}}
    w = quiet_world()
    try:
        try:
            f = w.start("Meta", sim_id="S", meta=meta)
        except ValueError:
            if want is None:
                return []
            return [Failure("C12.rejected_consistent", "C12.rejected_consistent|e2e", f"start rejected {case}", case)]
        except Exception as e:  # noqa
            return [Failure("C12.crash", "C12.crash|e2e", f"start: {type(e).__name__}: {e}; {case}", case)]
        if want is None:
            return [Failure("C12.accepted_inconsistent", "C12.accepted_inconsistent|e2e",
                            f"start accepted {case}", case)]
        mm = f.M
        gm = (members(mm.measurement_inputs), members(mm.event_inputs),
              members(mm.measurement_outputs), members(mm.event_outputs))
        if gm != want:
            return [Failure("C12.wrong_classification", "C12.wrong_classification|e2e", f"{gm} != {want}; {case}", case)]
        other = w.start("Meta", sim_id="O", meta={"api_version": "3.0", "type": "time-based", "models": {
            "M": {"public": True, "params": [], "attrs": ["a", "b", "c", "z"], "any_inputs": False}}})
        e1, e2 = f.M(), other.M()
        ins, outs = want[0] | want[1], want[2] | want[3]
        for i, x in enumerate(NAMES):
            for direction in ("out", "in"):
                ok_expected = bool((outs if direction == "out" else ins) >> i & 1)
                try:
                    if direction == "out":
                        w.connect(e1, e2, (x, "a"))
                    else:
                        w.connect(e2, e1, ("a", x), time_shifted=True, initial_data={"a": 0})
                    ok = True
                except ScenarioError:
                    ok = False
                if ok != ok_expected:
                    return [Failure("C12.connect_disagrees", "C12.connect_disagrees",
                                    f"connect {direction} attr {x}: accepted={ok} expected={ok_expected}; {case}", case)]
        return []
    finally:
        close_world(w)


def check_e2e_multi(typ, descs):
    """one simulator with several models: every model is classified from its own description (no
    carry-over between the models of a simulator)"""
    from mvf.simple_sim import quiet_world, close_world
    case = {"kind": "e2e_multi", "type": typ, "descs": descs}
    wants = []
    for d in descs:
        g = lambda k, d=d: tuple(d[k]) if k in d else None  # noqa
        wants.append(expected(g("attrs"), g("trigger"), g("non-trigger"), g("persistent"), g("non-persistent"),
                              d.get("any_inputs"), typ))
    meta = {"api_version": "3.0", "type": typ, "models": {f"M{i}": d for i, d in enumerate(descs)}}
    w = quiet_world()
    try:
        try:
            f = w.start("Meta", sim_id="S", meta=meta)
        except ValueError:
            if any(x is None for x in wants):
                return []
            return [Failure("C12.rejected_consistent", "C12.rejected_consistent|e2e_multi", f"start rejected {case}", case)]
        except Exception as e:  # noqa
            return [Failure("C12.crash", "C12.crash|e2e_multi", f"start: {type(e).__name__}: {e}; {case}", case)]
        if any(x is None for x in wants):
            return [Failure("C12.accepted_inconsistent", "C12.accepted_inconsistent|e2e_multi",
                            f"model #{[i for i, x in enumerate(wants) if x is None]} must be rejected; {case}", case)]
        for i, want in enumerate(wants):
            mm = f.models[f"M{i}"]
            gm = (members(mm.measurement_inputs), members(mm.event_inputs),
                  members(mm.measurement_outputs), members(mm.event_outputs))
            if gm != want:
                return [Failure("C12.wrong_classification", "C12.wrong_classification|e2e_multi",
                                f"model M{i}: {gm} != {want}; {case}", case)]
        return []
    finally:
        close_world(w)


def check_e2e_restart(types, descs):
    """one simulator class with a module-level meta, started several times (possibly with different types) in one
    process: every start is classified from the description as the simulator wrote it and its own type, and the
    simulator's own description is not changed by mosaik"""
    import copy
    from mvf import simple_sim
    from mvf.simple_sim import quiet_world, close_world
    case = {"kind": "e2e_restart", "types": types, "descs": descs}
    simple_sim.SHARED_META["models"] = {f"M{i}": copy.deepcopy(d) for i, d in enumerate(descs)}
    simple_sim.SHARED_META["type"] = "time-based"
    w = quiet_world()
    try:
        for n, typ in enumerate(types):
            wants = []
            for d in descs:
                g = lambda k, d=d: tuple(d[k]) if k in d else None  # noqa
                wants.append(expected(g("attrs"), g("trigger"), g("non-trigger"), g("persistent"), g("non-persistent"),
                                      d.get("any_inputs"), typ))
            try:
                f = w.start("Shared", sim_id=f"S{n}", sim_type=typ)
            except ValueError:
                if any(x is None for x in wants):
                    continue
                return [Failure("C12.rejected_consistent", "C12.rejected_consistent|e2e_restart",
                                f"start #{n} ({typ}) rejected {case}", case)]
            except Exception as e:  # noqa
                return [Failure("C12.crash", "C12.crash|e2e_restart", f"start #{n}: {type(e).__name__}: {e}; {case}", case)]
            if any(x is None for x in wants):
                return [Failure("C12.accepted_inconsistent", "C12.accepted_inconsistent|e2e_restart",
                                f"start #{n} ({typ}) must be rejected; {case}", case)]
            for i, want in enumerate(wants):
                mm = f.models[f"M{i}"]
                gm = (members(mm.measurement_inputs), members(mm.event_inputs),
                      members(mm.measurement_outputs), members(mm.event_outputs))
                if gm != want:
                    return [Failure("C12.wrong_classification", "C12.wrong_classification|e2e_restart",
                                    f"start #{n} ({typ}) model M{i}: {gm} != {want}; {case}", case)]
        return []
    finally:
        close_world(w)
        simple_sim.SHARED_META["models"] = {}


def check_case(case, acc):
    k = case["kind"]
    if k == "e2e_restart":
        return acc.triage(check_e2e_restart(case["types"], case["descs"]))
    if k == "e2e_multi":
        return acc.triage(check_e2e_multi(case["type"], case["descs"]))
    if k == "desc":
        d = case["desc"]
        g = lambda key: tuple(d[key]) if key in d else None  # noqa
        f = check_desc(g("attrs"), g("trigger"), g("non-trigger"), g("persistent"), g("non-persistent"),
                       d.get("any_inputs"), case["type"])
    elif k == "algebra":
        f = check_algebra(case["op"], case["a"], case["b"])
    elif k == "expr":
        f = check_expr(case["expr"])
    elif k == "e2e":
        f = check_e2e(case["type"], case["desc"])
    else:
        raise core.HarnessError(k)
    return acc.triage(f)


def shards(tier, seed):
    n = core.NPROC
    return [dict(prop=PROP, tier=tier, seed=seed, shard=i, nshards=n) for i in range(n)]


def shard(prop, tier, seed, shard, nshards):
    acc = core.Acc(PROP)
    evals = nontriv = 0

    def fail(fs):
        for f in acc.triage(fs):
            if len(acc.failures) < 30:
                acc.failures.append(f)

    # calibration: the 16 rows of the repository's own table must agree with the reference solver
    # (harness self-test, not a property)
    idx = 0
    for attrs in SUBSETS:
        for trig in SUBSETS:
            idx += 1
            if idx % nshards != shard:
                continue
            for nontrig in SUBSETS:
                for pers in SUBSETS:
                    for nonpers in SUBSETS:
                        given = sum(x is not None for x in (attrs, trig, nontrig, pers, nonpers))
                        for any_inputs in (None, False, True):
                            for typ in TYPES:
                                evals += 1
                                if given >= 2:
                                    nontriv += 1
                                r = check_desc(attrs, trig, nontrig, pers, nonpers, any_inputs, typ)
                                if r:
                                    fail(r)
                                elif expected(attrs, trig, nontrig, pers, nonpers, any_inputs, typ) is None:
                                    acc.classes["desc.rejected"] += 1
                                else:
                                    acc.classes["desc.accepted"] += 1
                                    if len(acc.samples) < 2 and given >= 3 and any_inputs:
                                        acc.samples.append({"kind": "desc", "type": typ,
                                                            "desc": make_desc(attrs, trig, nontrig, pers, nonpers, any_inputs),
                                                            "expected_masks": expected(attrs, trig, nontrig, pers, nonpers, any_inputs, typ)})
    if shard == 0:
        for op in ("-", "&", "|", "==", "in"):
            for ma in range(16):
                for mb in range(16):
                    evals += 1
                    if (ma | mb) & 0b1000:
                        nontriv += 1
                    acc.classes["algebra." + op] += 1
                    fail(check_algebra(op, ma, mb))
        acc.samples.append({"kind": "algebra", "op": "-", "a": 0b1011, "b": 0b0110})
    acc.evaluations += evals
    acc.extra["nontrivial_enumerated"] = nontriv

    from hypothesis import strategies as st
    leaf = st.integers(0, 15)
    expr = st.recursive(leaf, lambda ch: st.tuples(st.sampled_from(["-", "&", "|"]), ch, ch).map(list),
                        max_leaves=12)

    def hcheck(case, acc_):
        acc_.record(case, True, ["hyp." + case["kind"]])
        return check_case(case, acc_)

    nexpr = (1600 if tier == "quick" else 20000 * 16) // nshards + 1
    core.drive(expr.filter(lambda e: not isinstance(e, int)).map(lambda e: {"kind": "expr", "expr": e}),
               hcheck, acc, nexpr, seed * 1000 + shard)

    lst = st.one_of(st.none(), st.lists(st.sampled_from("abc"), unique=True, max_size=3).map(sorted))

    @st.composite
    def e2e(draw):
        d = {"public": True, "params": []}
        for k in ("attrs", "trigger", "non-trigger", "persistent", "non-persistent"):
            # bias to present attrs so that a good share is accepted
            v = draw(lst if k != "attrs" else st.one_of(lst, st.just(["a", "b", "c"]), st.just(["a", "b"])))
            if v is not None:
                d[k] = v
        ai = draw(st.sampled_from([None, False, True]))
        if ai is not None:
            d["any_inputs"] = ai
        return {"kind": "e2e", "type": draw(st.sampled_from(TYPES)), "desc": d}

    ne2e = (240 if tier == "quick" else 3200) // nshards + 1
    core.drive(e2e(), hcheck, acc, ne2e, seed * 1000 + 500 + shard)

    @st.composite
    def e2e_multi(draw):
        base = draw(e2e())
        descs = [base["desc"]]
        for _ in range(draw(st.integers(1, 2))):
            other = draw(st.one_of(e2e().map(lambda c: c["desc"]), st.just(None)))
            if other is None:
                # the same lists, another any_inputs flag / one list changed: near-duplicates are the hard case
                other = dict(base["desc"])
                mod = draw(st.sampled_from(["any_inputs", "attrs", "trigger"]))
                if mod == "any_inputs":
                    other["any_inputs"] = not other.get("any_inputs", False)
                elif mod == "attrs":
                    other["attrs"] = draw(st.lists(st.sampled_from("abc"), unique=True, max_size=3).map(sorted))
                else:
                    other["trigger"] = draw(st.lists(st.sampled_from("abc"), unique=True, max_size=3).map(sorted))
            descs.append(other)
        return {"kind": "e2e_multi", "type": base["type"], "descs": descs}

    core.drive(e2e_multi(), hcheck, acc, ne2e, seed * 1000 + 700 + shard)

    @st.composite
    def e2e_restart(draw):
        base = draw(st.one_of(e2e(), st.just({"desc": {"public": True, "params": [], "attrs": ["a", "b"]}})))
        descs = [base["desc"]]
        if draw(st.booleans()):
            descs.append(draw(e2e())["desc"])
        types = draw(st.lists(st.sampled_from(TYPES), min_size=2, max_size=3))
        return {"kind": "e2e_restart", "types": types, "descs": descs}

    core.drive(e2e_restart(), hcheck, acc, ne2e, seed * 1000 + 900 + shard)
    return acc


def self_test():
    """calibration against the repository's own 16-row table semantics (hard-coded copies of three
    characteristic rows; a disagreement means the reference solver is wrong -> harness error)"""
    rows = [
        ("time-based", True, ("a", "b"), (None, None, None, None), (ALL, 0, 0b0011, 0)),
        ("hybrid", True, None, (("a", "b"), None, ("c",), ()), None),  # 'd' not in universe: skip
        ("hybrid", False, None, (("a",), ("b",), ("c",), None), (0b0001, 0b0010, 0b0100, 0)),
        ("event-based", False, None, (None, ("a",), None, ("b",)), (0, 0b0001, 0, 0b0010)),
        ("time-based", False, ("a", "b"), (None, ("a",), None, None), "reject"),
        ("hybrid", False, ("a", "b"), (None, None, ("a",), ("a",)), "reject"),
        ("time-based", False, None, (None, None, None, None), "reject"),
    ]
    for typ, ai, attrs, (nt, t, p, np_), want in rows:
        if want is None:
            continue
        got = expected(attrs, t, nt, p, np_, ai, typ)
        if (want == "reject") != (got is None) or (want != "reject" and got != want):
            return f"reference solver disagrees with the repository's table row {typ, ai, attrs, nt, t, p, np_}: {got} vs {want}"
    return None

"""Systematic sensitivity test (not a registered check): generate first-order mutants of mosaik's source with a few
syntactic operators, keep those the repository's own test suite does not notice, and run the quick checks against
each of them.  A surviving mutant that is not equivalent to the original is a gap in the checks.

    python -m mvf.automutate list                      # number of mutants per file / operator
    python -m mvf.automutate filter  [--sample N]      # phase 1: which mutants pass the repository's suite
    python -m mvf.automutate checks                    # phase 2: quick checks against the survivors of phase 1
    python -m mvf.automutate report

State is kept in $MVF_AUTOMUT_DIR (default /tmp/mvf_automut): mutants.json, filter.json, checks.json.
The summary is copied to /verif/seeded/automutate.json by `report`.
Scratch worktrees of the repository are created under the state directory and removed again.
"""
from __future__ import annotations

import ast
import hashlib
import json
import os
import random
import shutil
import subprocess
import sys
import threading
from concurrent.futures import ThreadPoolExecutor

VERIF = os.path.dirname(os.path.dirname(os.path.abspath(__file__)))
REPO = os.environ.get("VP_RUN_REPO") or os.environ.get("MVF_REPO") or "/repo"
STATE = os.environ.get("MVF_AUTOMUT_DIR", "/tmp/mvf_automut")
FILES = ["mosaik/scheduler.py", "mosaik/simmanager.py", "mosaik/scenario.py", "mosaik/tiered_time.py",
         "mosaik/progress.py", "mosaik/util.py", "mosaik/adapters.py", "mosaik/in_or_out_set.py",
         "mosaik/proxies.py", "mosaik/internal_util.py", "mosaik/_debug.py"]
# order in which the checks are tried per file (the first VIOLATION ends the mutant)
ORDER = {
    "mosaik/scheduler.py": "C02 C03 C01 C05 C07 C10 C13 C09 C16 C17 C04 C14 C11 C06 C15 C08 C12 C18",
    "mosaik/simmanager.py": "C02 C03 C05 C14 C15 C16 C12 C17 C01 C07 C10 C13 C04 C09 C11 C06 C08 C18",
    "mosaik/scenario.py": "C11 C06 C05 C03 C14 C02 C01 C12 C15 C07 C10 C04 C16 C17 C13 C09 C18 C08",
    "mosaik/tiered_time.py": "C08 C01 C06 C05 C02 C09 C11 C07 C10 C03 C04 C16 C17 C13 C14 C12 C15 C18",
    "mosaik/progress.py": "C01 C05 C02 C07 C10 C17 C16 C03 C04 C09 C13 C14 C11 C06 C12 C15 C08 C18",
    "mosaik/util.py": "C18 C11 C12 C02 C05",
    "mosaik/adapters.py": "C15 C14 C13 C02 C12",
    "mosaik/in_or_out_set.py": "C12 C11 C15 C03",
    "mosaik/proxies.py": "C14 C15 C16 C04 C02 C05",
    "mosaik/internal_util.py": "C03 C04 C02 C16 C05",
    "mosaik/_debug.py": "C04 C02 C05",
}
CMP = {ast.Lt: ("<", ["<="]), ast.LtE: ("<=", ["<"]), ast.Gt: (">", [">="]), ast.GtE: (">=", [">"]),
       ast.Eq: ("==", ["!="]), ast.NotEq: ("!=", ["=="]), ast.Is: ("is", ["is not"]), ast.IsNot: ("is not", ["is"]),
       ast.In: ("in", ["not in"]), ast.NotIn: ("not in", ["in"])}


def offsets(src):
    lines = src.splitlines(keepends=True)
    starts = [0]
    for ln in lines:
        starts.append(starts[-1] + len(ln.encode()))
    return starts


def seg(node, starts):
    return starts[node.lineno - 1] + node.col_offset, starts[node.end_lineno - 1] + node.end_col_offset


def gen_mutants(rel, src):
    """yield (op, lineno, start, end, replacement) on the utf-8 bytes of src"""
    tree = ast.parse(src)
    starts = offsets(src)
    b = src.encode()
    skip = set()
    # docstrings, logging / warnings / tqdm calls, type-checking blocks, __repr__/__str__ bodies are not mutated
    for node in ast.walk(tree):
        if isinstance(node, (ast.FunctionDef, ast.AsyncFunctionDef)) and node.name in ("__repr__", "__str__"):
            for sub in ast.walk(node):
                skip.add(id(sub))
        if isinstance(node, ast.If) and "TYPE_CHECKING" in ast.dump(node.test):
            for sub in ast.walk(node):
                skip.add(id(sub))
        if isinstance(node, ast.Call):
            f = ast.unparse(node.func)
            if f.startswith(("logger.", "warnings.", "tqdm", "sim.tqdm", "world.tqdm", "self.tqdm", "print")) \
                    or ".tqdm." in f:
                for sub in ast.walk(node):
                    skip.add(id(sub))
        if isinstance(node, ast.Raise) and node.exc is not None:
            for sub in ast.walk(node.exc):      # error messages
                skip.add(id(sub))
    for node in ast.walk(tree):
        if id(node) in skip:
            continue
        if isinstance(node, ast.Compare) and len(node.ops) == 1 and type(node.ops[0]) in CMP:
            tok, repls = CMP[type(node.ops[0])]
            s0 = seg(node.left, starts)[1]
            e0 = seg(node.comparators[0], starts)[0]
            mid = b[s0:e0].decode()
            if mid.strip(" ()\n\\") != tok and tok not in mid:
                continue
            i = mid.find(tok)
            for r in repls:
                yield ("cmp", node.lineno, s0 + i, s0 + i + len(tok), r)
        elif isinstance(node, ast.BoolOp):
            tok = "and" if isinstance(node.op, ast.And) else "or"
            for x, y in zip(node.values, node.values[1:]):
                s0, e0 = seg(x, starts)[1], seg(y, starts)[0]
                mid = b[s0:e0].decode()
                i = mid.find(tok)
                if i >= 0:
                    yield ("bool", node.lineno, s0 + i, s0 + i + len(tok), "or" if tok == "and" else "and")
        elif isinstance(node, ast.UnaryOp) and isinstance(node.op, ast.Not):
            s0, e0 = seg(node, starts)
            so, eo = seg(node.operand, starts)
            yield ("not", node.lineno, s0, e0, "(" + b[so:eo].decode() + ")")
        elif isinstance(node, ast.BinOp) and isinstance(node.op, (ast.Add, ast.Sub)):
            tok = "+" if isinstance(node.op, ast.Add) else "-"
            s0, e0 = seg(node.left, starts)[1], seg(node.right, starts)[0]
            mid = b[s0:e0].decode()
            i = mid.find(tok)
            if i >= 0 and not isinstance(node.left, ast.Constant) or (
                    i >= 0 and isinstance(node.left, ast.Constant) and not isinstance(node.left.value, str)):
                yield ("arith", node.lineno, s0 + i, s0 + i + 1, "-" if tok == "+" else "+")
            # drop "+ 1" / "- 1"
            if isinstance(node.right, ast.Constant) and node.right.value == 1:
                ls, le = seg(node.left, starts)
                ns, ne = seg(node, starts)
                yield ("drop1", node.lineno, ns, ne, b[ls:le].decode())
        elif isinstance(node, ast.Call) and isinstance(node.func, ast.Name) and node.func.id in ("min", "max"):
            s0, e0 = seg(node.func, starts)
            yield ("minmax", node.lineno, s0, e0, "max" if node.func.id == "min" else "min")
        elif isinstance(node, ast.Constant) and isinstance(node.value, bool):
            s0, e0 = seg(node, starts)
            yield ("bool_const", node.lineno, s0, e0, "False" if node.value else "True")
        elif isinstance(node, ast.Constant) and isinstance(node.value, int) and node.value in (0, 1, 2):
            s0, e0 = seg(node, starts)
            yield ("int_const", node.lineno, s0, e0, str(node.value + 1))
        elif isinstance(node, (ast.If, ast.While)) and not isinstance(node.test, ast.Constant):
            s0, e0 = seg(node.test, starts)
            if isinstance(node, ast.If):
                yield ("if_true", node.lineno, s0, e0, "True")
            yield ("if_false", node.lineno, s0, e0, "False")
        elif isinstance(node, ast.Expr) and isinstance(node.value, (ast.Call, ast.Await)) and node.col_offset > 0:
            s0, e0 = seg(node, starts)
            yield ("del_call", node.lineno, s0, e0, "pass")
        elif isinstance(node, (ast.Assign, ast.AugAssign)) and node.col_offset > 0 and node.lineno == node.end_lineno:
            s0, e0 = seg(node, starts)
            if isinstance(node, ast.AugAssign):
                yield ("del_assign", node.lineno, s0, e0, "pass")
        elif isinstance(node, (ast.Break, ast.Continue)):
            s0, e0 = seg(node, starts)
            yield ("loop_ctl", node.lineno, s0, e0, "pass" if isinstance(node, ast.Continue) else "continue")


def all_mutants(repo):
    out = []
    for rel in FILES:
        src = open(os.path.join(repo, rel)).read()
        b = src.encode()
        seen = set()
        for op, line, s0, e0, r in gen_mutants(rel, src):
            if rel == "mosaik/util.py" and line >= 145:
                continue          # plotting helpers: outside every listed property
            new = b[:s0] + r.encode() + b[e0:]
            try:
                ast.parse(new.decode())
            except SyntaxError:
                continue
            key = hashlib.sha1(rel.encode() + new).hexdigest()[:12]
            if key in seen:
                continue
            seen.add(key)
            out.append(dict(id=key, file=rel, op=op, line=line, start=s0, end=e0, repl=r,
                            old=b[s0:e0].decode(), text=src.splitlines()[line - 1].strip()[:140]))
    return out


def apply(wt, m):
    p = os.path.join(wt, m["file"])
    b = open(p, "rb").read()
    assert b[m["start"]:m["end"]].decode() == m["old"], (m, b[m["start"]:m["end"]])
    open(p, "wb").write(b[:m["start"]] + m["repl"].encode() + b[m["end"]:])


def restore(wt, m):
    subprocess.run(["git", "-C", wt, "checkout", "--", m["file"]], check=True)


def worktree(name):
    wt = os.path.join(STATE, name)
    if os.path.exists(wt):
        subprocess.run(["git", "-C", REPO, "worktree", "remove", "--force", wt])
        shutil.rmtree(wt, ignore_errors=True)
    subprocess.run(["git", "-C", REPO, "worktree", "add", "-q", "--detach", wt, "HEAD"], check=True)
    return wt


def drop_worktree(wt):
    subprocess.run(["git", "-C", REPO, "worktree", "remove", "--force", wt])
    shutil.rmtree(wt, ignore_errors=True)


def load(name, default):
    p = os.path.join(STATE, name)
    return json.load(open(p)) if os.path.exists(p) else default


_LOCK = threading.Lock()


def save(name, obj):
    os.makedirs(STATE, exist_ok=True)
    with _LOCK:
        tmp = os.path.join(STATE, name + ".tmp")
        with open(tmp, "w") as f:
            json.dump(dict(obj) if isinstance(obj, dict) else obj, f, indent=1)
        os.replace(tmp, os.path.join(STATE, name))


def phase_filter(sample, workers=8):
    muts = all_mutants(REPO)
    if sample:
        rnd = random.Random(20260926)
        rnd.shuffle(muts)
        muts = muts[:sample]
    save("mutants.json", muts)
    done = load("filter.json", {})
    todo = [m for m in muts if m["id"] not in done]
    print(f"{len(muts)} mutants, {len(todo)} to run through the repository's suite", flush=True)
    chunks = [todo[i::workers] for i in range(workers)]

    def work(i):
        wt = worktree(f"wt_filter_{i}")
        try:
            for m in chunks[i]:
                apply(wt, m)
                try:
                    r = subprocess.run(["/venv/bin/python", "-m", "pytest", "-q", "-x", "-p", "no:cacheprovider",
                                        "--timeout=120"], cwd=wt, capture_output=True, text=True, timeout=600,
                                       env=dict(os.environ, PYTHONDONTWRITEBYTECODE="1"))
                    tail = (r.stdout.strip().splitlines() or [""])[-1]
                    res = "survived" if r.returncode == 0 else "killed"
                except subprocess.TimeoutExpired:
                    res, tail = "killed", "timeout"
                restore(wt, m)
                with _LOCK:
                    done[m["id"]] = dict(result=res, tail=tail[:160])
                print(f"[filter] {m['file']}:{m['line']} {m['op']} {m['old']!r}->{m['repl']!r}: {res}", flush=True)
                save("filter.json", done)
        finally:
            drop_worktree(wt)
    with ThreadPoolExecutor(workers) as ex:
        list(ex.map(work, range(workers)))
    surv = sum(1 for m in muts if done.get(m["id"], {}).get("result") == "survived")
    print(f"survived the repository's suite: {surv} of {len(muts)}", flush=True)




def irrelevant(m):
    """progress bars and informational log lines: outside every listed property"""
    t = m["text"]
    return "tqdm" in t or "logger.info" in t or "logger.debug" in t or "print_progress" in t


# enclosing function -> the checks whose property the function is anchored in (all of them are run for a survivor of
# the repository's suite; None = outside every listed property)
FUNC_CHECKS = {
    "mosaik/_debug.py": {"*": "C04 C02"},
    "mosaik/adapters.py": {"*": "C15"},
    "mosaik/in_or_out_set.py": {"*": "C12 C11"},
    "mosaik/internal_util.py": {"*": "C03 C16 C04"},
    "mosaik/tiered_time.py": {"*": "C08 C06 C01 C05"},
    "mosaik/progress.py": {"*": "C01 C05 C02 C07"},
    "mosaik/util.py": {"*": "C18"},
    "mosaik/proxies.py": {"LocalProxy": "C15 C16 C14", "RemoteProxy": "C14 C15 C16", "*": "C15 C14"},
    "mosaik/scenario.py": {
        "World.__init__": "C03 C04 C09 C17 C14", "World.cache_triggering_ancestors": "C07 C05 C02",
        "World.connect_one": "C11 C03 C01 C02 C06 C10", "World.connect_async_requests": "C16 C06",
        "World.connect": "C11 C16 C03", "World.get_data": "C14", "World.run": "C10 C17 C14 C06 C05 C04",
        "World.shutdown": "C14", "World.start": "C15 C12 C14", "connect_interval": "C11 C01 C08 C02",
        "group_path": "C11 C01 C02", "parse_attrs": "C12", "update_min": "C05 C07 C06", "SimGroup": "C11 C01",
        "ModelMock": "C12 C11", "World.ensure_no_dataflow_cycles": "C06 C05", "World.set_initial_event": "C02",
        "World.group": "C11 C01", "*": None},
    "mosaik/scheduler.py": {
        "get_avg_progress": None, "rt_sleep": None, "get_progress": None,
        "get_input_data": "C03 C16 C04", "get_max_advance": "C07 C17", "get_outputs": "C03 C13 C04",
        "next_step_settled": "C05 C02 C17", "prune_dataflow_cache": "C03 C04", "rt_check": "C17",
        "run": "C17 C14 C05", "sim_process": "C05 C09 C14 C02 C17", "step": "C13 C02 C17 C07",
        "wait_for_dependencies": "C01 C10 C16", "notify_dependencies": "C02 C03", "advance_progress": "C07 C05 C17 C02",
        "*": "C02 C03 C05"},
    "mosaik/simmanager.py": {
        "MosaikRemote._assert_async_requests": "C16", "MosaikRemote.get_data": "C16", "MosaikRemote.set_data": "C16",
        "MosaikRemote.set_event": "C17", "MosaikRemote": "C16 C17", "SimRunner.__init__": "C02 C05 C17 C01 C03",
        "SimRunner.schedule_step": "C02 C05 C17", "SimRunner.step": "C13 C02", "SimRunner": "C02 C03 C14 C05",
        "TimedInputBuffer": "C03 C04", "start": "C15 C14", "start_inproc": "C15", "start_proc": "C14",
        "start_connect": "C14", "*": "C14 C15"},
}


def enclosing_functions(repo):
    out = {}
    for rel in FILES:
        tree = ast.parse(open(os.path.join(repo, rel)).read())
        out[rel] = [(min([n.lineno] + [d.lineno for d in n.decorator_list]), n.end_lineno, n.name)
                    for n in ast.walk(tree) if isinstance(n, (ast.FunctionDef, ast.AsyncFunctionDef, ast.ClassDef))]
    return out


def func_of(m, spans):
    inner = sorted([s for s in spans[m["file"]] if s[0] <= m["line"] <= s[1]], key=lambda s: -(s[1] - s[0]))
    return ".".join(s[2] for s in inner) or "<module>"


def checks_for(m, spans):
    table = FUNC_CHECKS[m["file"]]
    name = func_of(m, spans)
    parts = name.split(".")
    for k in (name, ".".join(parts[:2]), parts[0]):
        if k in table:
            return name, (table[k].split() if table[k] else [])
    return name, (table["*"].split() if table.get("*") else [])


def phase_checks():
    muts = load("mutants.json", [])
    filt = load("filter.json", {})
    done = load("checks.json", {})
    todo = [m for m in muts if filt.get(m["id"], {}).get("result") == "survived" and m["id"] not in done
            and not irrelevant(m)]
    print(f"{len(todo)} survivors of the suite to run the quick checks against", flush=True)
    wt = worktree("wt_checks")
    spans = enclosing_functions(REPO)
    only = os.environ.get("MVF_AUTOMUT_FILES")
    if only:
        todo = [m for m in todo if m["file"] in only.split(",")]
    try:
        for m in todo:
            apply(wt, m)
            row = {}
            killed_by = None
            fname, plist = checks_for(m, spans)
            for p in plist:
                env = dict(os.environ, MVF_NO_EVIDENCE="1", MVF_REPO=wt)
                pr = subprocess.Popen([os.path.join(VERIF, "check"), p, "quick"], env=env, stdout=subprocess.PIPE,
                                      stderr=subprocess.DEVNULL, text=True, start_new_session=True)
                try:
                    so, _ = pr.communicate(timeout=1800)
                    rc = pr.returncode
                    rules = sorted({l.split("rule=")[1].split()[0] for l in so.splitlines() if "rule=" in l})
                except subprocess.TimeoutExpired:
                    import signal
                    os.killpg(pr.pid, signal.SIGKILL)       # the whole process group, not only the shell
                    pr.wait()
                    rc, rules = 124, ["timeout"]
                row[p] = dict(rc=rc, rules=rules[:4])
                if rc == 1:
                    killed_by = p
                    break
            restore(wt, m)
            done[m["id"]] = dict(killed_by=killed_by, checks=row, func=fname, in_scope=bool(plist))
            print(f"[checks] {m['file']}:{m['line']} {m['op']} {m['old']!r}->{m['repl']!r} | {m['text'][:70]} | "
                  f"{'KILLED by ' + killed_by + ' ' + str(row[killed_by]['rules'][:2]) if killed_by else 'SURVIVED'}",
                  flush=True)
            save("checks.json", done)
    finally:
        drop_worktree(wt)


# Manual triage of the mutants that survive the suite and the quick checks (read against the source, DESIGN 10.6).
# category -> {file: lines}
TRIAGE = {
    "dead code or unused attribute (rt_sleep is never called; started, supports_set_events, to_world_time, descent, "
    "the trigger set in connect, sim_progress are never read)": {
        "mosaik/scheduler.py": [183, 184, 185, 186, 188, 91, 32], "mosaik/simmanager.py": [433, 435, 445],
        "mosaik/scenario.py": [131, 140, 518, 519, 268]},
    "equivalent: the mutated guard or operation is redundant (guard repeated at the call site, edge added twice, "
    "zero written where zero stands, branch gives the same value, key always present, extra wake-up or extra "
    "progress update, first refusal subsumed by the second, self-step at `until` never taken, only .time of "
    "last_step is read, initial data reaches the same memory through the buffer, unreachable raise, only three "
    "simulator types exist)": {
        "mosaik/scheduler.py": [465, 131, 171, 366], "mosaik/scenario.py": [429, 155, 337, 417, 137, 965, 323, 813],
        "mosaik/tiered_time.py": [46, 50], "mosaik/in_or_out_set.py": [43, 52, 107], "mosaik/internal_util.py": [25],
        "mosaik/simmanager.py": [479, 481, 700, 436], "mosaik/proxies.py": [87, 151, 213], "mosaik/util.py": [107]},
    "diagnostics only (warnings, log lines, error texts, assert_graph, debug-mode assertions and execution-graph "
    "edges, the `incomparable` assertion branches, success/debug flags for logging)": {
        "mosaik/_debug.py": list(range(1, 400)), "mosaik/tiered_time.py": [71, 72, 75, 76, 79],
        "mosaik/scenario.py": [363, 364, 376, 377, 378, 380, 432, 272, 690, 712, 714, 660],
        "mosaik/scheduler.py": [279, 100, 351, 505], "mosaik/simmanager.py": [251]},
    "outside the listed properties (platform / process start-up, greetings, duplicate simulator id, run() twice, "
    "World.get_data after the run, failure during start, validation of rt_factor <= 0, non-serialisable inputs, "
    "values returned by asynchronous get_data, *when* a slow run is reported, un-cancelled waiter tasks, "
    "installing the loop as the current one, randomness of the distribution, unknown remote requests)": {
        "mosaik/simmanager.py": [52, 201, 235, 246, 247, 248, 259, 261, 269, 270, 287, 150, 156, 501, 642, 653],
        "mosaik/scenario.py": [56, 75, 244, 246, 247, 265, 306, 641, 566], "mosaik/scheduler.py": [46, 392, 393, 170],
        "mosaik/util.py": [108, 86], "mosaik/proxies.py": [173, 174, 177, 179, 182]},
    "the harness cannot run (World ignores asyncio_loop): every check exits 2 (harness error), no verdict": {
        "mosaik/scenario.py": [261]},
}


def triage(m):
    for cat, files in TRIAGE.items():
        if m["line"] in files.get(m["file"], []):
            return cat
    return None


def report():
    muts = load("mutants.json", [])
    filt = load("filter.json", {})
    chk = load("checks.json", {})
    rows = []
    for m in muts:
        f = filt.get(m["id"], {}).get("result")
        c = chk.get(m["id"])
        if irrelevant(m):
            continue
        rows.append(dict(file=m["file"], line=m["line"], op=m["op"], old=m["old"], new=m["repl"], text=m["text"],
                         triage=(triage(m) if c is not None and not c.get("killed_by") else None),
                         suite=f, killed_by=(c or {}).get("killed_by"),
                         rules=((c or {}).get("checks", {}).get((c or {}).get("killed_by") or "", {}) or {}).get("rules"),
                         checked=c is not None))
    summary = dict(
        mutants=len(muts),
        killed_by_repository_suite=sum(1 for r in rows if r["suite"] == "killed"),
        survived_repository_suite=sum(1 for r in rows if r["suite"] == "survived"),
        of_those_checked=sum(1 for r in rows if r["checked"]),
        of_those_killed_by_a_quick_check=sum(1 for r in rows if r["checked"] and r["killed_by"]),
        of_those_survived_all_quick_checks=sum(1 for r in rows if r["checked"] and not r["killed_by"]),
    )
    from collections import Counter
    cats = Counter((r["triage"] or "UNEXPLAINED")[:60] for r in rows if r["checked"] and not r["killed_by"])
    summary["survivors_by_triage"] = dict(cats)
    summary["killed_by_check"] = dict(Counter(r["killed_by"] for r in rows if r["killed_by"]))
    print(json.dumps(summary, indent=1))
    for r in rows:
        if r["checked"] and not r["killed_by"] and not r["triage"]:
            print(f"UNEXPLAINED SURVIVOR {r['file']}:{r['line']} {r['op']} {r['old']!r}->{r['new']!r} | {r['text']}")
    json.dump(dict(summary=summary, rows=[r for r in rows if r["suite"] == "survived"]),
              open(os.path.join(VERIF, "seeded", "automutate.json"), "w"), indent=1)


def main():
    cmd = sys.argv[1] if len(sys.argv) > 1 else "list"
    if cmd == "list":
        muts = all_mutants(REPO)
        from collections import Counter
        print(len(muts), Counter(m["file"] for m in muts), Counter(m["op"] for m in muts))
    elif cmd == "filter":
        n = int(sys.argv[sys.argv.index("--sample") + 1]) if "--sample" in sys.argv else 0
        phase_filter(n)
    elif cmd == "checks":
        phase_checks()
    elif cmd == "report":
        report()


if __name__ == "__main__":
    main()

"""./check <id> [quick|thorough] [--replay <file>]

Runs the replay tier (committed regression cases), then the generated search of the property,
writes evidence/<id>.json and prints the verdict.
"""
from __future__ import annotations

import importlib
import json
import os
import sys
import time
import traceback

from mvf import core


def load(prop):
    return importlib.import_module(f"mvf.props.{prop.lower()}")


def run_replay_file(mod, path, acc):
    with open(path) as f:
        body = json.load(f)
    case = body["case"]
    fails = mod.check_case(case, acc)
    for fl in fails:
        fl["replay_path"] = path
    return fails


def main(argv):
    if not argv:
        print(__doc__)
        return 2
    prop = argv[0].upper()
    tier = os.environ.get("VERIF_TIER", "quick")
    replay = None
    i = 1
    while i < len(argv):
        if argv[i] == "--replay":
            replay = argv[i + 1]
            i += 2
        elif argv[i] in ("quick", "thorough"):
            tier = argv[i]
            i += 1
        else:
            print("unknown argument", argv[i])
            return 2
    seed = int(os.environ.get("VERIF_SEED", "1"))
    core.check_repo_import()
    mod = load(prop)

    if replay:
        acc = core.Acc(prop)
        fails = run_replay_file(mod, replay, acc)
        if acc.harness_errors:
            print("HARNESS-ERROR", acc.harness_errors[0])
            return 2
        for fid, n in acc.excluded.items():
            print(f"KNOWN-FINDING: property={prop} {fid} (reproduced by this replay)")
        if fails:
            f = fails[0]
            print(f"VIOLATION property={prop} replay={replay}")
            print(f"  rule={f['rule']} signature={f['signature']}")
            print(f"  {f['message'][:1500]}")
            return 1
        print(f"[{prop}] replay {replay}: property held")
        return 0

    t0 = time.time()
    # the parts that run in this process (self-test, replay tier) get a hard limit as well: a block there is a
    # harness error (exit 2), never a hanging check
    import signal

    def on_alarm(sig, frm):
        sys.stdout.write(f"HARNESS-ERROR property={prop} the self-test / replay tier blocked (main-process watchdog)\n")
        sys.stdout.flush()
        os._exit(2)
    try:
        signal.signal(signal.SIGALRM, on_alarm)
        signal.alarm(int(os.environ.get("MVF_MAIN_WATCHDOG_S", "600")))
    except Exception:  # noqa
        pass
    if hasattr(mod, "self_test"):
        err = mod.self_test()
        if err:
            print(f"HARNESS-ERROR property={prop} self-test failed: {err}")
            return 2
    # replay tier
    acc0 = core.Acc(prop)
    nrep = 0
    for path in core.committed_replays(prop):
        try:
            acc0.failures.extend(run_replay_file(mod, path, acc0))
            nrep += 1
        except Exception:
            acc0.harness_errors.append(f"replay {path}:\n" + traceback.format_exc()[-2000:])
    signal.alarm(0)
    part0 = acc0.to_json()
    part0["evaluations"] = 0          # the replay tier is not counted as generated cases
    part0["nontrivial"] = []
    part0["samples"] = []
    part0["classes"] = {}
    merged = core.run_sharded(mod.__name__, "shard", mod.shards(tier, seed))
    merged = core.merge([part0, {**merged, "nontrivial": sorted(merged["nontrivial"])}])
    extra = {"replay_files_run": nrep}
    if hasattr(mod, "extra_coverage"):
        extra.update(mod.extra_coverage(tier, merged))
    exhaustive = mod.exhaustive(tier) if hasattr(mod, "exhaustive") else None
    return core.finish(prop, tier, seed, mod.LEVEL, merged, mod.RULE, mod.ASSUMPTIONS, t0,
                       extra_cov=extra, exhaustive=exhaustive)


if __name__ == "__main__":
    try:
        rc = main(sys.argv[1:])
    except SystemExit:
        raise
    except BaseException:
        traceback.print_exc()
        print("HARNESS-ERROR: uncaught exception in runner")
        rc = 2
    sys.exit(rc)

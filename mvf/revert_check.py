"""Sensitivity by history: for every `fix:` commit of the repository, revert that single commit in a scratch
worktree of HEAD and run the quick checks of the properties listed for the finding.  Not a registered check.

    python -m mvf.revert_check            (writes /verif/seeded/revert_table.json)
"""
import json
import os
import shutil
import subprocess
import sys
import tempfile

VERIF = os.path.dirname(os.path.dirname(os.path.abspath(__file__)))
REPO = "/repo"


def sh(*a, cwd=None, check=True):
    return subprocess.run(a, cwd=cwd, capture_output=True, text=True, check=check)


def main():
    known = json.load(open(os.path.join(VERIF, "known_findings.json")))["findings"]
    fixed = [f for f in known if f["status"] == "fixed"]
    out = []
    for f in fixed:
        c = f["commit"]
        props = f.get("properties", [f["property"]])
        wt = tempfile.mkdtemp(prefix="mvf_rev_")
        os.rmdir(wt)
        try:
            sh("git", "-C", REPO, "worktree", "add", "-q", "--detach", wt, "HEAD")
            r = sh("git", "revert", "--no-commit", c, cwd=wt, check=False)
            if r.returncode != 0:
                out.append({"finding": f["id"], "commit": c, "result": "revert conflicts with a later fix"})
                print(f["id"], c, "revert conflict", flush=True)
                continue
            row = {"finding": f["id"], "commit": c, "checks": {}}
            for p in props:
                env = dict(os.environ, MVF_REPO=wt, MVF_NO_EVIDENCE="1")
                rr = subprocess.run([os.path.join(VERIF, "check"), p, "quick"], env=env, capture_output=True,
                                    text=True, timeout=1500)
                rules = sorted({l.split("rule=")[1].split()[0] for l in rr.stdout.splitlines() if "rule=" in l})
                row["checks"][p] = {"rc": rr.returncode, "rules": rules[:5]}
            out.append(row)
            print(f["id"], c, row["checks"], flush=True)
        finally:
            sh("git", "-C", REPO, "worktree", "remove", "--force", wt, check=False)
            shutil.rmtree(wt, ignore_errors=True)
    os.makedirs(os.path.join(VERIF, "seeded"), exist_ok=True)
    json.dump(out, open(os.path.join(VERIF, "seeded", "revert_table.json"), "w"), indent=1)


if __name__ == "__main__":
    main()

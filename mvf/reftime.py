"""Reference tiered time, written from the documentation; shares nothing with mosaik.tiered_time.

A simulator in a group at positional path P (tuple) has depth d = len(P)+1 and times (t, s1..s(d-1)).
The delay of a connection from group path P to Q with shift k and weak flag w is the function
    T |-> pad_Q( T[0:c] with T[0]+=k, T[c-1]+=w ),   c = length of the common prefix of P and Q, + 1
represented as (pre_length, cutoff, tiers) exactly like the reference of C08 (a function on times).
"""
from __future__ import annotations

import re

from mvf.props.c08 import ref_apply, ref_compose, ref_rel, ref_le  # noqa: F401  (own tuple code)


def depth(path):
    return len(path) + 1


def common(p, q):
    d = 0
    for x, y in zip(p, q):
        if x == y:
            d += 1
        else:
            break
    return d + 1


def delay(src_path, dst_path, shift=0, weak=False):
    c = common(src_path, dst_path)
    n = depth(dst_path)
    t = [0] * n
    t[0] += int(shift or 0)
    if weak:
        if c < 2:
            raise ValueError("weak connection across the root")
        t[c - 1] += 1
    return (depth(src_path), c, tuple(t))


def conn_delay(groups, c):
    return delay(groups[c["src"]], groups[c["dst"]], c.get("shift", 0), c.get("weak", False))


def apply(d, T):
    return ref_apply(d, tuple(T))


def zero(path):
    return (0,) * depth(path)


def from_world(path, t):
    return (t,) + (0,) * len(path)


def is_zero(d):
    return all(x == 0 for x in d[2])


def parse_interval(text):
    """'1:0|(2)' / '1|1(2)' (repr of mosaik's TieredInterval) -> (pre_length, cutoff, tiers)"""
    m = re.fullmatch(r"\s*([0-9:]*)\|([0-9:]*)\((\d+)\)\s*", text)
    if not m:
        return None
    add = tuple(int(x) for x in m.group(1).split(":") if x != "")
    ext = tuple(int(x) for x in m.group(2).split(":") if x != "")
    return (int(m.group(3)), len(add), add + ext)


def walk_delays(scn, groups, max_len=None, cap=40000):
    """(src, dst) -> set of delays of all walks with at most max_len edges"""
    conns = scn.get("conns", [])
    edges = {}
    for c in conns:
        edges.setdefault(c["src"], []).append((c["dst"], conn_delay(groups, c)))
    for a in scn.get("async", []):
        edges.setdefault(a[0], []).append((a[1], delay(groups[a[0]], groups[a[1]])))
    n = len(scn["sims"])
    max_len = max_len or (2 * n + 1)
    out = {}
    count = 0
    frontier = [(s, s, None, 0) for s in groups]
    while frontier and count < cap:
        nxt = []
        for src, cur, d, ln in frontier:
            for dst, ed in edges.get(cur, []):
                nd = ed if d is None else ref_compose(d, ed)
                key = (src, dst)
                if nd in out.setdefault(key, set()) and ln > n:
                    continue
                out[key].add(nd)
                count += 1
                if ln + 1 < max_len:
                    nxt.append((src, dst, nd, ln + 1))
        frontier = nxt
    return out


def incomparable_paths(scn, groups, want=None):
    """True if some ordered pair is joined by two walks with pointwise incomparable delays
    (if `want` = (d1, d2) is given: those two delays must both occur for one pair)."""
    wd = walk_delays(scn, groups)
    for key, ds in wd.items():
        ds = list(ds)
        if want is not None:
            if want[0] in ds and want[1] in ds:
                return True
            continue
        for i in range(len(ds)):
            for j in range(i + 1, len(ds)):
                if ref_rel(ds[i], ds[j]) is None:
                    return True
    return False

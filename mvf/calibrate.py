"""Calibration of the history monitor against the maintainers' own expectations.

The repository's scenario tests (tests/scenarios/test_*.py) contain, per scenario, the expected execution
graph (node labels with tiered times) and the expected inputs of every step.  This self-test runs each
`create_scenario()` against the real code with recording wrappers around the simulators' proxies, captures
the arguments of `assert_graph` / `assert_inputs`, feeds the recorded trace to the monitor and requires

  (i)   no ordering rule (C01 / C02 / C07 / C10) fires,
  (ii)  the monitor's labels equal the expected node set,
  (iii) the monitor's expected inputs agree with the observed inputs (= the maintainers' expected inputs, the
        tests pass), except for disagreements that carry the signature of an open finding.

    python -m mvf.calibrate          -> prints a table, writes /verif/seeded/calibration.json

Not a registered check (it depends on the repository's test files); its result is quoted in DESIGN 10.8.
"""
from __future__ import annotations

import glob
import importlib.util
import json
import os
import sys
import warnings

REPO = os.environ.get("MVF_REPO", "/repo")
VERIF = os.path.dirname(os.path.dirname(os.path.abspath(__file__)))
SKIP_WORDS = ("MAS", "async_requests", '"Remote', "'Remote", "RemoteGeneric")


def load_module(path):
    name = "calib_" + os.path.basename(path)[:-3].replace("-", "_")
    spec = importlib.util.spec_from_file_location(name, path)
    mod = importlib.util.module_from_spec(spec)
    spec.loader.exec_module(mod)
    return mod


def run_scenario(path, cache):
    import mosaik
    import mosaik._debug as dbg
    from loguru import logger
    from mvf import monitor, reftime, harness
    from mosaik.scenario import SENTINEL
    logger.remove()
    warnings.simplefilter("ignore")
    sys.path.insert(0, REPO)
    from tests.scenarios.conftest import SIM_CONFIG
    mod = load_module(path)
    world = mosaik.World(SIM_CONFIG, debug=True, cache=cache, skip_greetings=True)
    rec = {"groups": {}, "conns": [], "initial_events": {}, "trace": [], "expected_graph": None,
           "expected_inputs": None, "until": None, "lazy": True}
    gid = {id(world.main_group): ()}
    counters = {(): 0}

    orig_group = world.group

    import contextlib

    @contextlib.contextmanager
    def group():
        parent = gid[id(world.current_group)]
        with orig_group():
            idx = counters.get(parent, 0)
            counters[parent] = idx + 1
            gid[id(world.current_group)] = parent + (idx,)
            counters.setdefault(parent + (idx,), 0)
            yield
    world.group = group

    orig_start = world.start

    def start(sim_name, sim_id=None, **params):
        fac = orig_start(sim_name, sim_id=sim_id, **params)
        rec["groups"][fac._sid] = gid[id(fac._group)]
        return fac
    world.start = start

    orig_connect = world.connect

    def connect(src, dest, *pairs, **kw):
        r = orig_connect(src, dest, *pairs, **kw)
        for p in pairs:
            sa, da = (p, p) if isinstance(p, str) else p
            init = kw.get("initial_data", {})
            rec["conns"].append({
                "src": src.sid, "dst": dest.sid, "shift": int(kw.get("time_shifted", 0)), "weak": bool(kw.get("weak")),
                "explicit": {"seid": src.eid, "deid": dest.eid, "sattr": sa, "dattr": da,
                             "trigger": dest.triggered_by(da), "persistent": src.is_persistent(sa),
                             "has_init": sa in init, "init": init.get(sa)}})
        return r
    world.connect = connect

    orig_sie = world.set_initial_event

    def sie(sid, time=0):
        rec["initial_events"][sid] = time
        return orig_sie(sid, time)
    world.set_initial_event = sie

    orig_run = world.run

    def run(until, **kw):
        rec["until"] = until
        rec["lazy"] = kw.get("lazy_stepping", True)
        for sid, sim in world.sims.items():
            wrap_proxy(sim, sid, rec["trace"])
        return orig_run(until, print_progress=False, **{k: v for k, v in kw.items() if k != "print_progress"})
    world.run = run

    o_graph, o_inputs = dbg.assert_graph, dbg.assert_inputs

    def cap_graph(w, expected_str, extra_nodes=[]):
        g = dbg.parse_execution_graph(expected_str)
        nodes = set(g.nodes) | {dbg.parse_node(n) for n in extra_nodes}
        rec["expected_graph"] = sorted([n[0], list(n[1].tiers)] for n in nodes)
        return o_graph(w, expected_str, extra_nodes)

    def cap_inputs(w, expected_inputs):
        rec["expected_inputs"] = expected_inputs
        return o_inputs(w, expected_inputs)
    dbg.assert_graph, dbg.assert_inputs = cap_graph, cap_inputs
    try:
        mod.test_scenario(world)
        test_ok = True
        err = ""
    except BaseException as e:  # noqa
        test_ok, err = False, f"{type(e).__name__}: {str(e)[:200]}"
    finally:
        dbg.assert_graph, dbg.assert_inputs = o_graph, o_inputs
        try:
            world.shutdown()
        except Exception:  # noqa
            pass
    types = {sid: s.type for sid, s in world.sims.items()}
    scn = {"groups": rec["groups"], "sims": [{"sid": s, "type": t} for s, t in types.items()],
           "conns": rec["conns"], "initial_events": rec["initial_events"], "until": rec["until"],
           "run": {"lazy_stepping": rec["lazy"]}, "world": {"cache": cache}}
    mon = monitor.Monitor(scn)

    class R:
        trace = rec["trace"]
        outcome = "returned" if test_ok else "exception"
        exec_nodes = None
    viol = mon.run(R)
    labels = sorted([s, list(L)] for s in mon.begun for L in mon.begun[s])
    return dict(test_ok=test_ok, err=err, viol=[(v["rule"], v["msg"][:160], v["feat"]) for v in viol],
                labels=labels, expected_graph=rec["expected_graph"], nsteps=len(labels))


def wrap_proxy(sim, sid, trace):
    proxy = sim._proxy
    orig_send = proxy.send

    async def send(request):
        func = request[0]
        if func == "step":
            args = request[1]
            trace.append(("step_begin", sid, args[0], json.loads(json.dumps(args[1], default=str)),
                          args[2] if len(args) > 2 else None))
            ret = await orig_send(request)
            trace.append(("step_end", sid, ret))
            return ret
        if func == "get_data":
            ret = await orig_send(request)
            trace.append(("get_end", sid, json.loads(json.dumps(ret, default=str))))
            return ret
        return await orig_send(request)
    proxy.send = send


def known_c03(v, cache):
    from mvf.props import c03
    sig = c03.sig({"rule": v[0], "feat": v[2]}, None, None)
    known = {"C03.source_cache_holds_initial_data|cache=True", "C03.not_yet_due|same_time_subtier_only",
             "C03.stale|same_time_subtier_only", "C03.lost|same_time_subtier_displaced",
             "C03.duplicated|event_conn_with_initial_data_into_non_trigger"}
    return sig in known, sig


def summary():
    """(agreeing runs, total runs, steps) for the evidence of C02; never raises"""
    try:
        rows = collect()
        n = [r for r in rows if "cache" in r]
        return {"runs": len(n), "agree": sum(1 for r in n if r["result"] == "agree"),
                "steps": sum(r.get("steps", 0) for r in n),
                "disagreeing": [f"{r['scenario']}[cache={r['cache']}]" for r in n if r["result"] != "agree"][:8]}
    except BaseException as e:  # noqa
        return {"error": f"{type(e).__name__}: {e}"[:200]}


def main():
    rows = collect()
    n = [r for r in rows if "cache" in r]
    agree = sum(1 for r in n if r["result"] == "agree")
    print(f"{agree}/{len(n)} runs agree; {sum(1 for r in rows if 'cache' not in r)} scenario files skipped")
    for r in n:
        if r["result"] != "agree":
            print(json.dumps(r, default=str)[:1500])
    os.makedirs(os.path.join(VERIF, "seeded"), exist_ok=True)
    json.dump(rows, open(os.path.join(VERIF, "seeded", "calibration.json"), "w"), indent=1, default=str)


def collect():
    files = sorted(glob.glob(os.path.join(REPO, "tests", "scenarios", "test_*.py")))
    rows = []
    for f in files:
        src = open(f).read()
        if any(w in src for w in SKIP_WORDS):
            rows.append({"scenario": os.path.basename(f), "result": "skipped (async requests / external processes)"})
            continue
        for cache in (True, False):
            try:
                r = run_scenario(f, cache)
            except BaseException as e:  # noqa
                rows.append({"scenario": os.path.basename(f), "cache": cache, "result": f"wrapper error {type(e).__name__}: {e}"})
                continue
            ordering = [v for v in r["viol"] if v[0].split(".")[0] in ("C01", "C02", "C07", "C10")]
            data = [v for v in r["viol"] if v[0].startswith("C03")]
            data_unknown = []
            data_known = []
            for v in data:
                k, sig = known_c03(v, cache)
                (data_known if k else data_unknown).append((v[0], v[1], sig))
            labels_ok = r["expected_graph"] is None or r["labels"] == r["expected_graph"]
            rows.append({"scenario": os.path.basename(f), "cache": cache, "test_passed": r["test_ok"],
                         "steps": r["nsteps"], "ordering_rules_fired": ordering, "labels_equal_expected": labels_ok,
                         "labels": None if labels_ok else [r["labels"], r["expected_graph"]],
                         "input_disagreements": data_unknown, "input_disagreements_open_findings": data_known,
                         "result": "agree" if (r["test_ok"] and not ordering and labels_ok and not data_unknown)
                         else "DISAGREE"})
    return rows


if __name__ == "__main__":
    main()
